"""Class-specific refinements decided by trace specifications that extend TraceExec with
history variables: C13 (TraceTwoLevel), C14 (TraceMultistage), C19 (TracePeriodic)."""
from collections import Counter

from . import boxes, framework as fw, record
from .record import mkcfg


def _collect(pid, traces, verdicts):
    viols = []
    for t, v in zip(traces, verdicts):
        for clause, pos, later in v["viol"]:
            if clause.startswith(pid + "."):
                viols.append({"property": pid, "clause": clause, "cls": t["cls"], "p": t["p"],
                              "N": t["N"], "pos": pos, "later_pass": later,
                              "what": f"{fw.describe(t)} event {pos}" + (" (repeat pass)" if later else ""),
                              "trace": {k: t[k] for k in ("cls", "p", "N", "passes", "ev")}})
    return viols


def _cov(traces, box, clauses):
    return {"traces_validated_against_impl": len(traces),
            "events_validated": sum(len(t["ev"]) for t in traces),
            "box": box, "clauses": clauses, "exhaustive": True,
            "samples": [{"config": fw.describe(t), "events": len(t["ev"]), "first_events": t["ev"][:5]}
                        for t in traces[:: max(1, len(traces) // 3)]][:3],
            "rule": "every configuration of the box is one trace; clauses evaluated at every event by TLC"}


def check_c13(ctx):
    q = ctx.tier == "quick"
    nmax, pmax, bmax = (24, 8, 3) if q else (60, 12, 5)
    cfgs = boxes.twolevel(nmax, pmax, bmax, passes=2)
    cfgs += [mkcfg("TwoLevel", N=300, passes=2, period=60, ram=2, st=0), mkcfg("TwoLevel", N=263, passes=1, period=7, ram=1, st=1),
             mkcfg("TwoLevel", N=131, passes=2, period=33, ram=3, st=0, traj=1)]
    # every period up to 128 with one full block and a one-step block (and, up to 64, two full blocks):
    # block arithmetic done in floats goes wrong only for particular periods (seed R8-C13-a: n * (1/period)
    # is 0.9999999999999999 for period 49)
    for p in range(9, 129 if q else 257):
        cfgs.append(mkcfg("TwoLevel", N=p + 1, passes=1, period=p, ram=2, st=0))
        if p <= (64 if q else 128):
            cfgs.append(mkcfg("TwoLevel", N=2 * p + 1, passes=1, period=p, ram=1, st=1, traj=1))
    # TLC-guided selection (see optim.planner_scan): blocks whose first advance fails the Bellman
    # equation of the binomial recurrence are added as one-block configurations
    from . import optim
    suspects, scanned = optim.planner_scan(ctx, 120 if q else 300, 8)
    guided = 0
    for n, s, traj in sorted(suspects):
        if guided >= 10:
            break
        cfgs.append(mkcfg("TwoLevel", N=n, passes=1, period=n, ram=s - 1, st=0, traj=traj))
        guided += 1
    traces = record.record_many(cfgs)
    verdicts = fw.validate(ctx, traces, module="TraceTwoLevel")
    viols = _collect("C13", traces, verdicts)
    cov = _cov(traces, f"TwoLevel N<={nmax}, period<={pmax}, binomial_snapshots<={bmax}, both storages, "
                       "both trajectories, 2 adjoint passes",
               ["C13.fwd_pattern", "C13.extra_storage", "C13.block_opt"])
    cov["planner_entries_scanned"] = scanned
    cov["guided_configurations"] = guided
    from . import design
    cov["design_level_generator_model"] = design.gen_twolevel(ctx)
    try:        # diagnostic, never a violation and never breaks the check
        sub = [t for t in traces if t["p"]["period"] <= (8 if q else 12) and t["N"] <= (24 if q else 60)]
        cov["conformance_drift"] = gen_drift_twolevel(ctx, sub)
    except Exception as ex:
        cov["conformance_drift"] = {"status": "diagnostic could not be completed", "error": f"{type(ex).__name__}: {ex}"[:400]}
    return viols, cov, ["GW closed form (GWForm.tla), tied to the exhaustive ExecOpt search by C05"]


def check_c14(ctx):
    q = ctx.tier == "quick"
    nmax = 18 if q else 40
    cfgs = []
    g = 0
    for n in range(2, nmax + 1):
        for traj in (0, 1):
            for s in list(range(1, n)) + ([n + 1] if n <= 8 else []):
                g += 1
                for i, r in enumerate(range(0, s + 1)):
                    c = mkcfg("Multistage", max_n=n, ram=r, disk=s - r, traj=traj)
                    c["grp"] = g
                    c["sibo"] = i          # the all-DISK split (r = 0) is the sibling of the group
                    cfgs.append(c)
    traces = record.record_many(cfgs)
    verdicts = fw.validate(ctx, traces, module="TraceMultistage")
    for t, v in zip(traces, verdicts):
        if any(c.startswith("BIND.") for c, _, _ in v["viol"]):
            raise fw.Machinery(f"BIND.topk: literal and top-k minimum disagree for {fw.describe(t)}")
    viols = _collect("C14", traces, verdicts)
    cov = _cov(traces, f"Multistage n<={nmax}, every total s<=n-1 (and s=n+1 for n<=8), every split (r, s-r), "
                       "both trajectories; sibling = the all-DISK split",
               ["C14.same_modulo_labels", "C14.slot_storage_fixed", "C14.ram_count", "C14.min_disk_traffic"])
    cov["groups"] = g
    return viols, cov, ["the literal SUBSET-quantified minimum is used for <= 10 stack positions; above, its "
                        "top-k equivalent (TLC checks the two agree on every instance with <= 10 positions)"]


C19_COSTS = [(1, 1, 2, 2), (1, 1, 0, 0), (2, 1, 1, 3), (1, 2, 3, 1), (3, 1, 5, 2), (1, 3, 1, 1),
             (1, 1, 5, 4), (1, 1, 10, 10), (2, 3, 7, 1), (1, 4, 0, 3), (3, 1, 6, 6), (5, 2, 20, 10),
             (1, 4, 1, 1, 4), (10, 10, 25, 0, 10)]      # the last two are fractional: uf = 0.25; wd = 2.5, rd = 0


def threshold_costs():
    """Cost vectors whose ratio (wd+rd)/uf lies exactly on, just below, just above and half a unit
    below each threshold beta(cm+1, t) of the closed form, the first one (ratio 1) included
    (seeds R6-C13-b: the ratio rounded to an integer; R7-C08-b: a bounded search one short at ratio 1)."""
    out = []
    for b in (1, 3, 4, 5, 6, 10, 15, 20):
        for tot in (4 * b - 2, 4 * b - 1, 4 * b, 4 * b + 1):
            out.append((4, 1, tot // 2, tot - tot // 2))
    return out


def check_c19(ctx):
    q = ctx.tier == "quick"
    nmax, cms = (40, (1, 2, 3)) if q else (80, (1, 2, 3, 4))
    cfgs = []
    for c in threshold_costs():
        for cm in cms:
            for n in (12, 25, 40) if q else (12, 25, 40, 64):
                cfgs.append(mkcfg("PeriodicDiskRevolve", max_n=n, ram=cm, **boxes.cv(c)))
    for n in range(1, nmax + 1):
        for cm in cms:
            for c in C19_COSTS:
                cfgs.append(mkcfg("PeriodicDiskRevolve", max_n=n, ram=cm, **boxes.cv(c)))
    for c in ((1, 1, 250, 250), (1, 1, 5000, 5000), (1, 1, 40, 15), (2, 1, 300, 100)):
        for cm in (1, 2):
            for n in (150, 300):
                cfgs.append(mkcfg("PeriodicDiskRevolve", max_n=n, ram=cm, **boxes.cv(c)))
    traces = record.record_many(cfgs)
    verdicts = fw.validate(ctx, traces, module="TracePeriodic")
    viols = _collect("C19", traces, verdicts)
    periods = Counter()
    for t, v in zip(traces, verdicts):
        periods[(t["p"]["ram"], t["p"]["uf"], t["p"]["wd"], t["p"]["rd"], v["extra"][0])] += 1
    cov = _cov(traces, f"PeriodicDiskRevolve n<={nmax}, cm in {cms}, {len(C19_COSTS)} cost vectors",
               ["C19.write_positions", "C19.no_late_write", "C19.read_once", "C19.segment_opt"])
    cov["periods_by_cm_uf_wd_rd"] = {f"cm={k[0]},uf={k[1]},wd={k[2]},rd={k[3]}": k[4] for k in sorted(periods)}
    return viols, cov, ["the period is the closed form of Aupy & Herrmann (2017) as transcribed in GWForm.tla",
                        "'more than m steps remain' is read on the N-1 step chain of the Aupy-Herrmann model"]


def gen_drift(ctx, nmax):
    """Implementation traces against the binomial generator model (diagnostic only)."""
    cfgs = boxes.multistage(nmax) + boxes.revolve_family(nmax, (1, 2, 3), boxes.COSTS6[:3], classes=("Revolve",))
    traces = record.record_many(cfgs)
    verdicts = fw.validate(ctx, traces, module="TraceGenBinomial")
    drift = [fw.describe(t) for t, v in zip(traces, verdicts) if any(c == "GEN.drift" for c, _, _ in v["viol"])]
    return {"model": "GenBinomialCore (Multistage, all splits and trajectories; Revolve, 3 cost vectors)",
            "traces": len(traces), "drifting": len(drift), "examples": drift[:5]}


def gen_drift_twolevel(ctx, traces):
    """Implementation traces against the TwoLevel generator model (diagnostic only)."""
    from . import c10
    probes = [t for t in record.record_many([c for c in c10.probe_traces(ctx.tier) if c["cls"] == "TwoLevel"])
              if "machinery" not in t]          # a finalize(k) probe at every position of the canonical call sequence
    traces = list(traces) + probes
    verdicts = fw.validate(ctx, traces, module="TraceGenTwoLevel", tag="gtl")
    drift = [fw.describe(t) for t, v in zip(traces, verdicts) if any(c == "GEN.drift" for c, _, _ in v["viol"])]
    return {"model": "GenTwoLevelCore (any Bellman-optimal advance, the same one every time; finalize as the base class)",
            "traces": len(traces), "finalize_probe_traces": len(probes), "drifting": len(drift), "examples": drift[:5]}


def gen_drift_disk(ctx, nmax):
    """DiskRevolve / PeriodicDiskRevolve traces against the Disk-Revolve generator model (diagnostic only)."""
    cfgs = (boxes.revolve_family(nmax, (1, 2, 3), boxes.COSTS8, classes=("DiskRevolve", "PeriodicDiskRevolve"))
            + boxes.revolve_family(min(nmax, 12), (1, 2), boxes.FRAC[:3], classes=("DiskRevolve", "PeriodicDiskRevolve")))
    traces = [t for t in record.record_many(cfgs) if not t.get("ctor")]
    verdicts = fw.validate(ctx, traces, module="TraceGenDisk", tag="gdk")
    drift = [fw.describe(t) for t, v in zip(traces, verdicts) if any(c == "GEN.drift" for c, _, _ in v["viol"])]
    return {"model": "GenDiskCore (any split attaining the Disk-Revolve recurrence or the closed-form period; any "
                     "Bellman-optimal binomial advance)", "traces": len(traces), "drifting": len(drift),
            "examples": drift[:5]}


def gen_drift_mixed(ctx, nmax):
    """Implementation traces against the mixed generator model (diagnostic only)."""
    cfgs = boxes.mixed(nmax)
    traces = record.record_many(cfgs)
    verdicts = fw.validate(ctx, traces, module="TraceGenMixed")
    drift = [fw.describe(t) for t, v in zip(traces, verdicts) if any(c == "GEN.drift" for c, _, _ in v["viol"])]
    return {"model": "GenMixedCore (every optimal planner option allowed)", "traces": len(traces),
            "drifting": len(drift), "examples": drift[:5]}
