"""Parameter boxes: which configurations of which classes are recorded.

Every box is enumerated exhaustively (no sampling) except the seeded large-n
samples of the thorough tier, which use VERIF_SEED."""
import random

from .record import mkcfg

# integer cost vectors (uf, ub, wd, rd): default; free disk; uf != ub both ways; wd != rd both ways;
# exactly one of wd, rd zero (both ways); expensive forward
COSTS6 = [(1, 1, 2, 2), (1, 1, 0, 0), (2, 1, 1, 3), (1, 2, 3, 1), (3, 1, 5, 2), (1, 3, 1, 1)]
COSTS8 = COSTS6 + [(1, 1, 0, 2), (1, 1, 2, 0)]
COSTS12 = COSTS8 + [(2, 3, 7, 1), (5, 2, 3, 3), (1, 4, 10, 10), (4, 1, 1, 9)]


# fractional cost vectors, written as integers over a common scale: (uf, ub, wd, rd, scale)
FRAC = [(10, 10, 1, 1, 10), (5, 2, 1, 1, 10), (10, 10, 5, 25, 10), (30, 10, 1, 1, 10), (10, 10, 25, 0, 10),
        (1, 4, 1, 1, 4), (4, 10, 0, 15, 10),     # uf = 0.25 and uf = 0.4
        (10, 10, 1, 2, 10), (10, 20, 3, 7, 10)]  # decimals that are not exact in binary (0.1 + 0.2, 0.3 + 0.7)


def cv(c):
    d = dict(uf=c[0], ub=c[1], wd=c[2], rd=c[3])
    if len(c) > 4:
        d["scale"] = c[4]
    return d


def multistage(nmax, trajs=(0, 1), extra=2):
    out = []
    for n in range(1, nmax + 1):
        for ram in range(0, n + extra + 1):
            for disk in range(0, n + extra + 1 - ram):
                if n > 1 and ram + disk < 1:
                    continue
                for t in trajs:
                    out.append(mkcfg("Multistage", max_n=n, ram=ram, disk=disk, traj=t))
    return out


def mixed(nmax, sts=(0, 1)):
    out = []
    for n in range(1, nmax + 1):
        for s in range(min(1, n - 1), n + 2):
            for st in sts:
                out.append(mkcfg("Mixed", max_n=n, ram=s, st=st))
    return out


def revolve_family(nmax, cms, costs, cds=(0, 1, 2, 3), classes=("Revolve", "DiskRevolve",
                                                             "PeriodicDiskRevolve", "HRevolve")):
    out = []
    for n in range(1, nmax + 1):
        for cm in list(cms) + [n + 1]:
            for c in costs:
                for cls in classes:
                    if cls == "HRevolve":
                        for cd in cds:
                            out.append(mkcfg(cls, max_n=n, ram=cm, disk=cd, **cv(c)))
                    else:
                        out.append(mkcfg(cls, max_n=n, ram=cm, **cv(c)))
    return out


def twolevel(nmax, pmax, bmax, passes=3, sts=(0, 1), trajs=(0, 1)):
    out = []
    for N in range(1, nmax + 1):
        for p in range(1, pmax + 1):
            for b in range(0, bmax + 1):
                for st in sts:
                    for t in trajs:
                        out.append(mkcfg("TwoLevel", N=N, passes=passes, period=p, ram=b,
                                         st=st, traj=t))
    return out


def basic(nmax, passes=3):
    out = []
    for N in range(1, nmax + 1):
        out.append(mkcfg("SingleMemory", N=N, passes=passes))
        out.append(mkcfg("SingleDiskCopy", N=N, passes=passes))
        out.append(mkcfg("SingleDiskMove", N=N, passes=1))
        out.append(mkcfg("None", N=N, passes=0))
    return out


def late_finalize():
    """Online schedules whose forward is longer than one Forward of sys.maxsize steps: several
    next() before a (consistent) finalize inside the last Forward's range."""
    import sys
    M = sys.maxsize
    out = []
    for cls, passes in (("SingleMemory", 2), ("None", 0)):
        for j in (2, 3):
            k = (j - 1) * M + 3
            c = mkcfg(cls, N=0, passes=passes)
            c["calls"] = [("next",)] * j + [("fin", k)] + [("next",)] * 7
            out.append(c)
    return out


def sparse_large():
    """A thin layer of larger configurations on top of the dense quick box (long periods with few
    units, more steps than the dense box reaches), so that defects needing a longer block or a
    deeper recursion have somewhere to show."""
    out = []
    for p in (7, 9, 12, 16):
        for b in (0, 1, 2, 3):
            for st in (0, 1):
                for t in (0, 1):
                    for N in (p, p + 2, 2 * p + 1):
                        out.append(mkcfg("TwoLevel", N=N, passes=2, period=p, ram=b, st=st, traj=t))
    for n in (17, 23, 31):
        for s in (1, 2, 3, 5):
            for (r, d) in {(0, s), (s, 0), (1, s - 1)}:
                if r >= 0 and d >= 0:
                    for t in (0, 1):
                        out.append(mkcfg("Multistage", max_n=n, ram=r, disk=d, traj=t))
    for n in (20, 27):
        for s in (1, 2, 3, 5, 8):
            for st in (0, 1):
                out.append(mkcfg("Mixed", max_n=n, ram=s, st=st))
    # a few giants, and a few runs with many adjoint passes
    out += [mkcfg("Multistage", max_n=150, ram=0, disk=7), mkcfg("Multistage", max_n=97, ram=3, disk=4, traj=1),
            mkcfg("Multistage", max_n=211, ram=2, disk=1), mkcfg("Mixed", max_n=120, ram=9, st=0),
            mkcfg("Mixed", max_n=83, ram=3, st=1), mkcfg("TwoLevel", N=95, passes=2, period=40, ram=3, st=0),
            mkcfg("TwoLevel", N=64, passes=2, period=9, ram=1, st=1, traj=1),
            mkcfg("HRevolve", max_n=60, ram=3, disk=4), mkcfg("HRevolve", max_n=45, ram=1, disk=2, uf=2, ub=1, wd=1, rd=3),
            mkcfg("DiskRevolve", max_n=64, ram=2), mkcfg("PeriodicDiskRevolve", max_n=80, ram=3),
            mkcfg("Revolve", max_n=75, ram=5), mkcfg("SingleDiskCopy", N=60, passes=2), mkcfg("SingleMemory", N=200, passes=2),
            mkcfg("TwoLevel", N=7, passes=7, period=3, ram=1, st=0), mkcfg("TwoLevel", N=8, passes=6, period=4, ram=2, st=1),
            mkcfg("SingleDiskCopy", N=3, passes=7), mkcfg("SingleMemory", N=2, passes=8),
            # beyond CPython's small-int cache (an `is` for an `==` only shows above 256)
            mkcfg("TwoLevel", N=300, passes=2, period=60, ram=2, st=0), mkcfg("TwoLevel", N=263, passes=1, period=7, ram=1, st=1),
            mkcfg("SingleDiskCopy", N=270, passes=2), mkcfg("SingleDiskMove", N=260, passes=1),
            mkcfg("Multistage", max_n=300, ram=2, disk=3), mkcfg("Mixed", max_n=280, ram=4, st=1),
            mkcfg("Revolve", max_n=260, ram=4), mkcfg("HRevolve", max_n=258, ram=3, disk=3),
            # very many adjoint calculations of a one-step forward (cheap: 3-4 events per pass)
            mkcfg("SingleDiskCopy", N=1, passes=1100), mkcfg("SingleMemory", N=1, passes=1100),
            mkcfg("TwoLevel", N=1, passes=1100, period=1, ram=0, st=0)]
    # the documented `for action in schedule: ... break` driving style, resumed with new for loops
    for c in (mkcfg("TwoLevel", N=5, passes=3, period=2, ram=1, st=0), mkcfg("SingleMemory", N=3, passes=3),
              mkcfg("SingleDiskCopy", N=3, passes=3), mkcfg("SingleDiskMove", N=3, passes=1),
              mkcfg("Multistage", max_n=6, ram=1, disk=1), mkcfg("Mixed", max_n=6, ram=2, st=0),
              mkcfg("HRevolve", max_n=6, ram=1, disk=1), mkcfg("Revolve", max_n=5, ram=2), mkcfg("None", N=2, passes=0)):
        c["forloop"] = 1
        out.append(c)
    for n in (13, 15, 19):
        for cm in (1, 2, 3):
            for c in (COSTS8[0], COSTS8[2], COSTS8[6], COSTS8[7], FRAC[0]):
                for cls in ("Revolve", "DiskRevolve", "PeriodicDiskRevolve"):
                    out.append(mkcfg(cls, max_n=n, ram=cm, **cv(c)))
                for cd in (1, 2):
                    out.append(mkcfg("HRevolve", max_n=n, ram=cm, disk=cd, **cv(c)))
    return out


# cost vectors whose ratio (wd + rd) / uf lies exactly on a threshold of the period formula as a real
# number but NOT as a float (0.7 + 1.4 over 0.7 is 2.9999999999999996): used for the executor
# properties only (C19 is not evaluated on them: there the float result is the library's business)
INEXACT = [(7, 10, 7, 14, 10), (1, 10, 1, 2, 10), (7, 10, 14, 28, 10), (3, 10, 3, 6, 10)]


def inexact_thresholds():
    return revolve_family(12, (1, 2), INEXACT, cds=(1, 2), classes=("PeriodicDiskRevolve", "DiskRevolve", "HRevolve"))


def ebox(tier, seed=0):
    """The trace box shared by the executor properties (C01-C04, C08, C09a, C11, C12, C18a)."""
    if tier == "quick":
        out = (multistage(12) + mixed(16) + revolve_family(12, (1, 2, 3, 4), COSTS8)
               + revolve_family(9, (1, 2, 3), FRAC, cds=(0, 1, 2))
               + twolevel(12, 5, 3) + basic(12) + late_finalize() + sparse_large() + inexact_thresholds())
    else:
        rnd = random.Random(seed)
        out = (multistage(26) + mixed(40)
               + revolve_family(30, (1, 2, 3, 4, 6), COSTS12, cds=(0, 1, 2, 3, 5))
               + revolve_family(20, (1, 2, 3), FRAC, cds=(0, 1, 2, 4))
               + twolevel(30, 7, 4) + basic(40) + late_finalize() + inexact_thresholds())
        for _ in range(60):
            n = rnd.randint(41, 300)
            s = rnd.randint(1, min(n, 40))
            r = rnd.randint(0, s)
            out.append(mkcfg("Multistage", max_n=n, ram=r, disk=s - r, traj=rnd.randint(0, 1)))
            out.append(mkcfg("Mixed", max_n=n, ram=s, st=rnd.randint(0, 1)))
            p = rnd.randint(2, 40)
            out.append(mkcfg("TwoLevel", N=n, passes=2, period=p, ram=rnd.randint(0, 6),
                             st=rnd.randint(0, 1), traj=rnd.randint(0, 1)))
        for _ in range(40):
            n = rnd.randint(31, 120)
            c = rnd.choice(COSTS12)
            cm = rnd.randint(1, 8)
            out.append(mkcfg("Revolve", max_n=n, ram=cm, **cv(c)))
            out.append(mkcfg("DiskRevolve", max_n=n, ram=cm, **cv(c)))
            out.append(mkcfg("PeriodicDiskRevolve", max_n=n, ram=cm, **cv(c)))
            out.append(mkcfg("HRevolve", max_n=n, ram=cm, disk=rnd.randint(0, 6), **cv(c)))
    return out
