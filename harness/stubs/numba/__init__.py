"""Stub of numba for the verification harness (numba itself is not installed here and
cannot be fetched): njit is the identity decorator, so the library takes its
"numba is importable" code path (the tabulated Mixed planner) in pure Python."""
__version__ = "0.0-verif-stub"


def njit(*args, **kwargs):
    if len(args) == 1 and callable(args[0]) and not kwargs:
        return args[0]

    def deco(fn):
        return fn
    return deco


jit = njit
