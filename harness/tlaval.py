"""A small parser for TLA+ values as TLC prints them (PrintT output, state dumps,
-simulate trace files): integers, strings, booleans, tuples << >>, sets { },
intervals a..b, records [f |-> v], functions (k :> v @@ ...), model values."""
import re

_tok = re.compile(r'''\s*(?:
    (?P<str>"(?:[^"\\]|\\.)*") |
    (?P<int>-?\d+) |
    (?P<op><<|>>|\|->|:>|@@|\.\.|[\[\]{}(),]) |
    (?P<id>[A-Za-z_][A-Za-z0-9_!]*)
)''', re.X)


class Func(dict):
    """A TLA+ function printed with :> / @@ (keys are hashable python values)."""


def tokenize(s):
    pos = 0
    out = []
    n = len(s)
    while pos < n:
        m = _tok.match(s, pos)
        if not m:
            if s[pos:].strip() == "":
                break
            raise ValueError(f"bad TLA+ value text at {pos}: {s[pos:pos+40]!r}")
        pos = m.end()
        k = m.lastgroup
        out.append((k, m.group(k)))
    return out


def parse(s):
    toks = tokenize(s)
    v, i = _val(toks, 0)
    if i != len(toks):
        raise ValueError("trailing tokens in TLA+ value")
    return v


def _freeze(v):
    if isinstance(v, list):
        return tuple(_freeze(x) for x in v)
    if isinstance(v, set):
        return frozenset(_freeze(x) for x in v)
    if isinstance(v, dict):
        return tuple(sorted((k, _freeze(x)) for k, x in v.items()))
    return v


def _val(t, i):
    k, x = t[i]
    if k == "int":
        v = int(x)
        if i + 1 < len(t) and t[i + 1] == ("op", ".."):
            hi, j = _val(t, i + 2)
            return set(range(v, hi + 1)), j
        return v, i + 1
    if k == "str":
        return bytes(x[1:-1], "utf-8").decode("unicode_escape"), i + 1
    if k == "id":
        if x == "TRUE":
            return True, i + 1
        if x == "FALSE":
            return False, i + 1
        return x, i + 1
    if x == "<<":
        out = []
        i += 1
        while t[i] != ("op", ">>"):
            v, i = _val(t, i)
            out.append(v)
            if t[i] == ("op", ","):
                i += 1
        return out, i + 1
    if x == "{":
        out = []
        i += 1
        while t[i] != ("op", "}"):
            v, i = _val(t, i)
            out.append(v)
            if t[i] == ("op", ","):
                i += 1
        return [v for v in out], i + 1      # sets as lists (elements may be unhashable)
    if x == "[":
        out = {}
        i += 1
        while t[i] != ("op", "]"):
            name = t[i][1]
            assert t[i + 1] == ("op", "|->"), t[i:i + 3]
            v, i = _val(t, i + 2)
            out[name] = v
            if t[i] == ("op", ","):
                i += 1
        return out, i + 1
    if x == "(":
        out = Func()
        i += 1
        while t[i] != ("op", ")"):
            kk, i = _val(t, i)
            assert t[i] == ("op", ":>"), t[i]
            v, i = _val(t, i + 1)
            out[_freeze(kk)] = v
            if t[i] == ("op", "@@"):
                i += 1
        return out, i + 1
    raise ValueError(f"unexpected token {t[i]}")


def find_marked(text, start='<< "@V"', end='"V@" >>'):
    """All values printed between the markers, in text order (robust to the
    interleaving of lines printed by several TLC workers: each PrintT value is
    written in one piece)."""
    out = []
    pat = re.compile(r'<<\s*"@V"\s*,(.*?),\s*"V@"\s*>>', re.S)
    for m in pat.finditer(text):
        out.append(parse("<<" + m.group(1) + ">>"))
    return out
