"""C10 (finalize) and C09(b) (flags at every point of every short call sequence):
spec -> code -> spec.  TLC enumerates every call history over {next, finalize(-1..K)} of
length D (Client.tla) and seeded random longer ones (-simulate); each is replayed into a
fresh object of every profile; TLC then validates the logs (TraceClient.tla): finalize
outcomes and effects against the guard written once in SchedAPI.tla, all observers after
every call, and the action stream against the same history without its rejected calls."""
from collections import Counter

from . import framework as fw, record, tlc
from .record import mkcfg


def profiles(tier):
    on = [mkcfg("SingleMemory", N=0, passes=0), mkcfg("SingleDiskCopy", N=0, passes=0),
          mkcfg("SingleDiskMove", N=0, passes=0), mkcfg("None", N=0, passes=0),
          mkcfg("TwoLevel", N=0, passes=0, period=1, ram=1, st=0),
          mkcfg("TwoLevel", N=0, passes=0, period=2, ram=1, st=1),
          mkcfg("TwoLevel", N=0, passes=0, period=3, ram=0, st=0, traj=1)]
    off = [mkcfg("Multistage", max_n=3, ram=1, disk=1), mkcfg("Mixed", max_n=3, ram=1, st=0),
           mkcfg("HRevolve", max_n=3, ram=1, disk=1), mkcfg("Mixed", max_n=1, ram=0, st=1)]
    if tier != "quick":
        off += [mkcfg("Revolve", max_n=2, ram=1), mkcfg("DiskRevolve", max_n=4, ram=1),
                mkcfg("PeriodicDiskRevolve", max_n=3, ram=2), mkcfg("Multistage", max_n=1, ram=0, disk=0)]
        on += [mkcfg("TwoLevel", N=0, passes=0, period=4, ram=2, st=1)]
    return on + off


def histories(ctx, K, D, simulate=None, seed=0):
    env = {"CLIENT_K": str(K), "CLIENT_D": str(D)}
    if simulate:
        r = tlc.run("Client", env=env, workers=1, timeout=600, simulate=f"num={simulate}",
                    args=["-depth", str(D + 1), "-seed", str(seed + 1)])
    else:
        r = tlc.run("Client", env=env, workers=1, timeout=900)
    ctx.add_run("Client" + ("(simulate)" if simulate else ""), r)
    hs = [tuple(v[0]) for v in tlc.marked(r)]
    if not hs:
        raise fw.Machinery(f"Client produced no histories: {r['error']}")
    if not simulate and len(hs) != (K + 3) ** D:
        raise fw.Machinery(f"Client enumerated {len(hs)} histories, expected {(K + 3) ** D}")
    return hs


def to_calls(h):
    return [("next",) if c == -2 else ("fin", c) for c in h]


def tail(h, tail_next):
    """A fixed continuation, a function of the ACCEPTED calls only (so a history and its
    sibling get the same one): a few next(), a finalize at a small step, then next()."""
    return [("next",)] * 2 + [("fin", 2)] + [("next",)] * tail_next + [("fin", 1), ("fin", 3)]


def replay_all(profs, hists, tail_next):
    cfgs = []
    for p in profs:
        for h in hists:
            c = dict(p)
            c["calls"] = to_calls(h) + tail(h, tail_next)
            c["hist_len"] = len(h)
            cfgs.append(c)
    traces = record.record_many(cfgs)
    # siblings: the same history with the rejected finalize calls deleted
    out = []
    sib_cfgs, sib_pos = [], []
    for c, t in zip(cfgs, traces):
        if "machinery" in t:
            raise fw.Machinery(str(t))
        out.append(t)
        if t["ctor"] or t["hung"]:
            continue
        calls = c["calls"]
        evs = t["ev"][2:]          # events 1 and 2 are the initial observations
        keep = [call for call, e in zip(calls, evs) if not (e[0] == 1 and e[1] != 0)]
        if len(keep) != len(calls):
            s = dict(c)
            s["calls"] = keep
            sib_cfgs.append(s)
            sib_pos.append(len(out) - 1)
            out.append(None)
    sibs = record.record_many(sib_cfgs)
    for pos, st in zip(sib_pos, sibs):
        if "machinery" in st:
            raise fw.Machinery(str(st))
        out[pos]["sib"] = 1
        out[pos + 1] = st
    return out


def probe_profiles(tier):
    p = [mkcfg("TwoLevel", N=5, passes=2, period=2, ram=1, st=0), mkcfg("TwoLevel", N=3, passes=2, period=3, ram=1, st=0),
         mkcfg("TwoLevel", N=7, passes=2, period=3, ram=1, st=1), mkcfg("TwoLevel", N=7, passes=2, period=4, ram=2, st=0, traj=1),
         mkcfg("SingleMemory", N=2, passes=2), mkcfg("SingleDiskCopy", N=3, passes=2), mkcfg("SingleDiskMove", N=3, passes=1),
         mkcfg("None", N=2, passes=0), mkcfg("Multistage", max_n=5, ram=1, disk=1), mkcfg("Mixed", max_n=5, ram=2, st=0),
         mkcfg("Mixed", max_n=1, ram=0, st=1), mkcfg("Multistage", max_n=1, ram=0, disk=0), mkcfg("HRevolve", max_n=4, ram=1, disk=1),
         mkcfg("Revolve", max_n=1, ram=1), mkcfg("DiskRevolve", max_n=4, ram=1), mkcfg("PeriodicDiskRevolve", max_n=5, ram=1)]
    if tier != "quick":
        p += [mkcfg("TwoLevel", N=11, passes=3, period=5, ram=2, st=0), mkcfg("TwoLevel", N=8, passes=2, period=4, ram=3, st=1),
              mkcfg("Multistage", max_n=9, ram=2, disk=1, traj=1), mkcfg("Mixed", max_n=9, ram=3, st=1),
              mkcfg("HRevolve", max_n=7, ram=1, disk=2, uf=1, ub=1, wd=0, rd=2)]
    return p


def probe_traces(tier):
    """The canonical call sequence of each profile with ONE finalize(k) probe inserted at every
    position (k = the true step count, and k = 1): finalize must be accepted exactly when the
    forward stands at max_n - at EVERY point of the stream - and must never change anything."""
    cfgs = []
    for p in probe_profiles(tier):
        base = record.canonical(p)
        calls = []
        for e in base["ev"][2:]:
            calls.append(("next",) if e[0] == 0 else ("fin", p["N"]))
        for i in range(len(calls) + 1):
            for k in sorted({p["N"], 1}):
                c = dict(p)
                c["calls"] = calls[:i] + [("fin", k)] + calls[i:]
                cfgs.append(c)
    return cfgs


def replay_cfgs(cfgs):
    traces = record.record_many(cfgs)
    out, sib_cfgs, sib_pos = [], [], []
    for c, t in zip(cfgs, traces):
        if "machinery" in t:
            raise fw.Machinery(str(t))
        out.append(t)
        if t["ctor"] or t["hung"]:
            continue
        evs = t["ev"][2:]
        keep = [call for call, e in zip(c["calls"], evs) if not (e[0] == 1 and e[1] != 0)]
        if len(keep) != len(c["calls"]):
            s = dict(c)
            s["calls"] = keep
            sib_cfgs.append(s)
            sib_pos.append(len(out) - 1)
            out.append(None)
    sibs = record.record_many(sib_cfgs)
    for pos, st in zip(sib_pos, sibs):
        if "machinery" in st:
            raise fw.Machinery(str(st))
        out[pos]["sib"] = 1
        out[pos + 1] = st
    return out


def check(ctx, pid="C10", tier=None):
    tier = tier or ctx.tier
    q = tier == "quick"
    K, D = (3, 4) if q else (4, 5)
    from . import design
    gen = design.gen_basic(ctx) if pid == "C10" else None
    profs = profiles(tier)
    hists = histories(ctx, K, D)
    sim = histories(ctx, K + 2, 8, simulate=40 if q else 500, seed=ctx.seed)
    probes = replay_cfgs(probe_traces(tier))
    traces = replay_all(profs, hists, 4) + replay_all(profs, sorted(set(sim)), 6) + probes
    verdicts = fw.validate(ctx, traces, module="TraceClient")
    viols = []
    fin = Counter()
    for t, v in zip(traces, verdicts):
        for e in t["ev"]:
            if e[0] == 1:
                fin[e[1]] += 1
        for clause, pos, later in v["viol"]:
            if clause.startswith(pid + "."):
                viols.append({"property": pid, "clause": clause, "cls": t["cls"], "p": t["p"],
                              "N": t["N"], "pos": pos,
                              "what": f"{fw.describe(t)} event {pos}",
                              "trace": {k: t[k] for k in ("cls", "p", "N", "passes", "calls", "ev")}})
    cov = {
        "traces_validated_against_impl": len(traces),
        "histories_exhaustive": len(hists), "alphabet": f"next, finalize(-1..{K})", "depth": D,
        "histories_simulated": len(set(sim)), "simulated_depth": 8, "profiles": len(profs),
        "sibling_traces": sum(1 for t in traces if t.get("sib")),
        "probe_traces": len(probes),
        "design_level_generator_models": gen,
        "finalize_calls_by_outcome": {"ok": fin[0], "ValueError": fin[1], "RuntimeError": fin[2],
                                      "other": fin[3]},
        "samples": [{"config": fw.describe(t), "events": t["ev"][:5]} for t in traces[:: max(1, len(traces) // 4)]][:4],
        "exhaustive": True,
        "rule": "every sequence of length D over the call alphabet, for every profile; plus seeded "
                "random sequences of length 8 from TLC -simulate",
    }
    if pid == "C10":
        try:        # diagnostic: the basic schedules' traces must be THE behaviour of the GenBasic model
            basic = [t for t in traces if t["cls"] in ("SingleMemory", "SingleDiskCopy", "SingleDiskMove", "None")
                     and not t.get("ctor")]
            bv = fw.validate(ctx, basic, module="TraceGenBasic", tag="gb")
            drift = [fw.describe(t) for t, v in zip(basic, bv) if any(c == "GEN.drift" for c, _, _ in v["viol"])]
            cov["conformance_drift"] = {"model": "GenBasic (deterministic: same action, outcome and observers at every call)",
                                        "traces": len(basic), "drifting": len(drift), "examples": drift[:5]}
        except Exception as ex:
            cov["conformance_drift"] = {"status": "diagnostic could not be completed",
                                        "error": f"{type(ex).__name__}: {ex}"[:400]}
    return viols, cov, ["histories longer than the bounds are not explored"]


def with_client(base):
    """A property decided on the trace box AND on the Client histories (observers and action
    shapes must be right along ANY call sequence, not only the canonical one)."""
    def run(ctx):
        va, cova, asm = base(ctx)
        vb, covb, _ = check(ctx, pid=ctx.pid, tier="quick")     # the quick history set in both tiers
        cova["traces_validated_against_impl"] += covb["traces_validated_against_impl"]
        cova["client_histories"] = {k: covb[k] for k in ("histories_exhaustive", "histories_simulated",
                                                         "depth", "profiles", "alphabet")}
        return va + vb, cova, asm
    return run


def check_c09(ctx):
    """C09 = (a) the trace box + (b) the Client histories, both filtered to C09 clauses."""
    from . import eprops
    va, cova, asm = eprops.check(ctx)
    vb, covb, _ = check(ctx, pid="C09")
    cova["traces_validated_against_impl"] += covb["traces_validated_against_impl"]
    cova["client_histories"] = {k: covb[k] for k in ("histories_exhaustive", "histories_simulated",
                                                     "depth", "profiles")}
    return va + vb, cova, asm
