"""Checks decided by replaying the shared trace box through TraceExec (Executor +
SchedAPI): C01, C02, C03, C04, C08, C09(a), C11, C12, C18(a)."""
import os
import json
from collections import Counter

from . import boxes, record, framework as fw

# which event kinds evaluate a clause (for the per-clause "exercised" counts)
_KIND = {"F": lambda e: e[0] == 0 and e[1] == 0 and e[2] == 0,
         "R": lambda e: e[0] == 0 and e[1] == 0 and e[2] == 1,
         "L": lambda e: e[0] == 0 and e[1] == 0 and e[2] in (2, 3),
         "EF": lambda e: e[0] == 0 and e[1] == 0 and e[2] == 4,
         "ER": lambda e: e[0] == 0 and e[1] == 0 and e[2] == 5,
         "act": lambda e: e[0] == 0 and e[1] == 0,
         "next": lambda e: e[0] == 0,
         "fin": lambda e: e[0] == 1,
         "any": lambda e: True}

CLAUSES = {
    "C01.fwd_start": "F", "C01.overwrite": "F", "C01.load_exists": "L",
    "C01.load_before_adj": "L", "C01.load_covers": "L", "C01.rev_deps": "R",
    "C02.after_last": "act", "C02.only_forward_before_ef": "act", "C02.er_due": "act",
    "C02.fwd_once": "F", "C02.rev_phase": "R", "C02.rev_order": "R", "C02.load_phase": "L",
    "C02.incomplete": "next", "C02.ef_once": "EF", "C02.ef_position": "EF", "C02.er_complete": "ER",
    "C03.ram": "any", "C03.disk": "any", "C03.kind": "F",
    "C04.clean": "ER", "C04.no_accumulation": "ER",
    "C08.n": "any", "C08.r": "any", "C08.max_n": "any",
    "C09.repeat": "act", "C09.is_exhausted": "any", "C09.is_running": "any",
    "C09.premature_stop": "next", "C09.stop_after_exhausted": "next",
    "C10.outcome": "fin", "C10.fin_state": "fin", "C10.noop": "fin",
    "C10.reject_no_effect": "fin", "C10.ef_after_finalize": "act",
    "C11.no_raise": "any", "C11.under_report": "any",
    "C12.work": "any", "C12.overshoot": "F", "C12.deps_adjacent": "F", "C12.load_clean": "L",
    "C12.load_deps_adjacent": "L",
    "C18.shape": "act", "C18.repr_roundtrip": "act",
}


def owners(clause, later):
    """Properties under which a failing clause is reported."""
    out = {clause.split(".")[0]}
    if later and clause.startswith("C01."):
        out.add("C09")          # "each further calculation being an exact, EXECUTABLE repeat"
    return out


def run_box(ctx, cfgs, label):
    traces = record.record_many(cfgs)
    verdicts = fw.validate(ctx, traces)
    fw.bind_totals(traces, verdicts)
    return traces, verdicts


def ebox_result(ctx):
    def compute():
        from . import design
        free = design.run(ctx)
        cfgs = boxes.ebox(ctx.tier, ctx.seed)
        traces, verdicts = run_box(ctx, cfgs, "ebox")
        kinds = Counter()
        for t in traces:
            for e in t["ev"]:
                for k, f in _KIND.items():
                    if f(e):
                        kinds[k] += 1
        return {"traces": traces, "verdicts": verdicts, "runs": ctx.tlc_runs,
                "kinds": dict(kinds), "design": free}
    res = fw.cached("ebox", ctx.tier, ctx.seed, compute)
    if not ctx.tlc_runs:
        ctx.tlc_runs = res["runs"]
    return res


def violations_of(pid, traces, verdicts):
    out = []
    for t, v in zip(traces, verdicts):
        for clause, pos, later in v["viol"]:
            if pid in owners(clause, later):
                out.append({"property": pid, "clause": clause, "cls": t["cls"], "p": t["p"],
                            "N": t["N"], "pos": pos, "later_pass": later,
                            "what": f"{fw.describe(t)} event {pos}"
                                    + (" (repeat pass)" if later else ""),
                            "trace": {k: t[k] for k in ("cls", "p", "N", "passes", "ev")
                                      if k in t} | ({"calls": t["calls"]} if "calls" in t else {})})
    return out


def sample_traces(traces, k=3):
    out = []
    seen = set()
    for t in traces:
        if t["cls"] in seen or not t["ev"]:
            continue
        seen.add(t["cls"])
        out.append({"config": fw.describe(t), "events": len(t["ev"]), "first_events": t["ev"][:6]})
        if len(out) >= k:
            break
    return out


def check(ctx):
    res = ebox_result(ctx)
    traces, verdicts = res["traces"], res["verdicts"]
    viols = violations_of(ctx.pid, traces, verdicts)
    mine = sorted(c for c in CLAUSES if c.startswith(ctx.pid + "."))
    if ctx.pid == "C09":
        mine += sorted(c for c in CLAUSES if c.startswith("C01."))
    exercised = {c: res["kinds"].get(CLAUSES[c], 0) for c in mine}
    per_class = Counter(t["cls"] for t in traces)
    events = sum(len(t["ev"]) for t in traces)
    coverage = {
        "traces_validated_against_impl": len(traces),
        "events_validated": events,
        "clauses": mine,
        "clause_evaluations": exercised,
        "traces_per_class": dict(per_class),
        "constructor_rejections_in_box": sum(1 for t in traces if t.get("ctor")),
        "box": f"ebox tier={ctx.tier}: see harness/boxes.py:ebox",
        "samples": sample_traces(traces, 4),
        "design_level_free_runs": res.get("design"),
        "exhaustive": ctx.tier == "quick",
        "rule": "every configuration of the box is one trace; every clause is evaluated at "
                "every event of every trace by TLC (TraceExec.tla)",
    }
    if ctx.pid == "C01" and os.environ.get("VERIF_NO_OPLAYER") != "1":
        from . import oplayer
        try:
            coverage["operation_layer"] = oplayer.run(ctx)      # diagnostic (see harness/oplayer.py)
        except Exception as ex:     # a diagnostic tier never decides, and never breaks, the check of C01
            coverage["operation_layer"] = {"status": "diagnostic tier could not be completed",
                                           "error": f"{type(ex).__name__}: {ex}"[:600]}
    return viols, coverage, ["restart checkpoint coverage is [n0,n1) of the writing Forward",
                             "the executor semantics of Executor.tla (transcribed from schedule.py "
                             "docstrings and tests/test_validity.py)"]
