"""Common plumbing of the per-property checks: recording + TLC validation of a
trace batch, known-finding matching, evidence files, VIOLATION lines, replay files."""
import hashlib
import json
import os
import shutil
import sys
import time

from . import record, tlc
from .common import VERIF, REPO
from .tlc import Machinery

OUT = os.path.join(VERIF, "out")
EVID = os.environ.get("VERIF_EVIDENCE_DIR") or os.path.join(VERIF, "evidence")   # self-tests redirect it
KNOWN = os.path.join(VERIF, "known_findings.json")


class Ctx:
    def __init__(self, pid, tier, seed):
        self.pid = pid
        self.tier = tier
        self.seed = seed
        self.t0 = time.time()
        self.dir = os.path.join(OUT, f"{pid}-{tier}-{os.getpid()}")
        os.makedirs(self.dir, exist_ok=True)
        self.tlc_runs = []         # (module, generated, distinct, wall)
        self.notes = []

    def cleanup(self):
        shutil.rmtree(self.dir, ignore_errors=True)

    def add_run(self, name, r):
        self.tlc_runs.append({"spec": name, "transitions": r["generated"],
                              "states": r["distinct"], "wall_s": round(r["wall"], 2)})


def tree_hash():
    """Hash of the library sources + the machinery, the key of the (opt-in) result cache."""
    h = hashlib.sha256()
    for base in (os.path.join(REPO, "checkpoint_schedules"), os.path.join(VERIF, "spec"),
                 os.path.join(VERIF, "harness")):
        for root, dirs, files in sorted(os.walk(base)):
            dirs[:] = sorted(d for d in dirs if d != "__pycache__")
            for f in sorted(files):
                if f.endswith((".py", ".tla", ".cfg")):
                    p = os.path.join(root, f)
                    h.update(p.encode())
                    h.update(open(p, "rb").read())
    return h.hexdigest()[:24]


def cached(name, tier, seed, fn):
    """Development aid, OFF unless VERIF_CACHE=1: reuse a result computed for exactly
    the same sources of /repo and /verif."""
    if os.environ.get("VERIF_CACHE") != "1":
        return fn()
    d = os.path.join(OUT, "cache")
    os.makedirs(d, exist_ok=True)
    key = os.path.join(d, f"{name}-{tier}-{seed}-{os.environ.get('VERIF_REPO','')!r}-{tree_hash()}.json".replace("/", "_"))
    if os.path.exists(key):
        return json.load(open(key))
    v = fn()
    json.dump(v, open(key, "w"))
    return v


def shard(traces, max_events=400000):
    out, cur, n = [], [], 0
    for t in traces:
        k = len(t.get("ev", ())) + 1
        same_group = cur and t.get("grp") is not None and t.get("grp") == cur[-1].get("grp")
        if cur and n + k > max_events and not cur[-1].get("sib") and not same_group:
            out.append(cur)
            cur, n = [], 0
        cur.append(t)
        n += k
    if cur:
        out.append(cur)
    return out


def validate(ctx, traces, module="TraceExec", cfg=None, timeout=1800, env=None, tag="tr"):
    """Validate recorded traces with TLC.  Returns one verdict per trace:
    {"viol": [[clause, pos, later], ...], "cnt": {...}, ...} aligned with `traces`."""
    bad = [t for t in traces if "machinery" in t]
    if bad:
        raise Machinery(f"recorder failed: {bad[0]}")
    verdicts = [None] * len(traces)
    base = 0
    for si, part in enumerate(shard(traces)):
        path = os.path.join(ctx.dir, f"{tag}{si}.json")
        with open(path, "w") as f:
            json.dump(part, f, separators=(",", ":"))
        e = {"TRACE_FILE": path}
        e.update(env or {})
        r = tlc.run(module, cfg=cfg, env=e, timeout=timeout)
        ctx.add_run(module, r)
        os.remove(path)
        if r["timeout"]:
            raise Machinery(f"TLC timed out on {module} shard {si}")
        if not r["ok"]:
            raise Machinery(f"TLC failed on {module}: {(r['error'] or r['stdout'][-800:])[:800]}")
        want = sum(len(t["ev"]) + 1 for t in part)
        if r["distinct"] != want:
            raise Machinery(f"{module}: distinct states {r['distinct']} != expected {want} "
                            "(a trace was not consumed to its end)")
        vs = tlc.marked(r)
        if len(vs) != len(part):
            raise Machinery(f"{module}: {len(vs)} verdicts for {len(part)} traces")
        for v in vs:
            tid = v[0]
            verdicts[base + tid - 1] = {"viol": v[1], "cnt": v[2], "pass": v[3], "phase": v[4],
                                        "extra": v[5:]}
        base += len(part)
    if any(v is None for v in verdicts):
        raise Machinery("missing verdicts")
    return verdicts


def totals_py(t):
    """The harness's own count of the totals the spec re-derives (BIND.totals)."""
    nR = nDW = nDR = 0
    for e in t["ev"]:
        if e[0] == 0 and e[1] == 0:
            k = e[2]
            if k == 1:
                nR += max(e[3] - e[4], 0) if e[3] < 10 ** 9 else 0
            elif k == 0 and e[7] == 1:
                nDW += 1
            elif k in (2, 3):
                if e[7] == 1 and e[8] == 2:
                    nDR += 1
                if e[8] == 1:
                    nDW += 1
    return {"nR": nR, "nDW": nDW, "nDR": nDR}


def bind_totals(traces, verdicts):
    for t, v in zip(traces, verdicts):
        py = totals_py(t)
        for k, x in py.items():
            if v["cnt"][k] != x:
                raise Machinery(f"BIND.totals: harness and spec disagree on {k} for "
                                f"{t['cls']} {t['p']}: {x} vs {v['cnt'][k]}")


def cfg_key(t):
    p = t["p"]
    return (t["cls"], p["max_n"], p["ram"], p["disk"], p["traj"], p["st"], p["period"],
            p["uf"], p["ub"], p["wd"], p["rd"], p.get("scale", 1), t.get("N"), t.get("path", 0))


def describe(t):
    p = t["p"]
    c = t["cls"]
    if c in ("SingleMemory", "SingleDiskCopy", "SingleDiskMove", "None"):
        s = f"{c}() N={t['N']}"
    elif c == "Multistage":
        s = f"Multistage({p['max_n']},{p['ram']},{p['disk']},traj={p['traj']})"
    elif c == "Mixed":
        s = f"Mixed({p['max_n']},{p['ram']},st={p['st']})"
    elif c == "TwoLevel":
        s = f"TwoLevel(period={p['period']},b={p['ram']},st={p['st']},traj={p['traj']}) N={t['N']}"
    elif c == "HRevolve":
        s = f"HRevolve({p['max_n']},{p['ram']},{p['disk']},uf={p['uf']},ub={p['ub']},wd={p['wd']},rd={p['rd']})"
    else:
        s = f"{c}({p['max_n']},{p['ram']},uf={p['uf']},ub={p['ub']},wd={p['wd']},rd={p['rd']})"
    if p.get("scale", 1) != 1:
        s += f" [costs/{p['scale']}]"
    if "calls" in t:
        s += f" calls={t['calls']}"
    return s


def load_known():
    if not os.path.exists(KNOWN):
        return []
    return json.load(open(KNOWN)).get("findings", [])


def match_known(v, known):
    """An OPEN known finding suppresses exactly the violations it describes:
    same property, clause, class, and every listed parameter equal."""
    for k in known:
        if k.get("status") != "open":
            continue
        if k["property"] != v["property"] or k.get("clause") != v["clause"]:
            continue
        if k.get("cls") and k["cls"] != v.get("cls"):
            continue
        w = k.get("where", {})
        if all(v.get("p", {}).get(a) == b or v.get(a) == b for a, b in w.items()):
            return k
    return None


def finish(ctx, violations, coverage, assumptions=(), level="model_checking"):
    """Write evidence, print KNOWN-FINDING / VIOLATION lines, return the exit code."""
    known = load_known()
    fresh, listed = [], {}
    for v in violations:
        k = match_known(v, known)
        if k is not None:
            listed.setdefault(k["id"], (k, 0))
            listed[k["id"]] = (k, listed[k["id"]][1] + 1)
        else:
            fresh.append(v)
    for kid, (k, n) in listed.items():
        print(f"KNOWN-FINDING: property={ctx.pid} {k['id']}: {k['what']} ({n} occurrence(s) this run)")
    rdir = os.path.join(OUT, "replay", ctx.pid)
    shutil.rmtree(rdir, ignore_errors=True)
    shown = 0
    groups = {}
    for v in fresh:
        groups.setdefault((v["clause"], v.get("cls")), []).append(v)
    for (clause, cls), vs in sorted(groups.items(), key=lambda kv: str(kv[0])):
        os.makedirs(rdir, exist_ok=True)
        vs.sort(key=lambda v: (len(json.dumps(v.get("trace", ""))), str(v.get("what"))))
        v = vs[0]
        lazy = v.pop("_lazy", None)
        if lazy is not None:
            try:
                v["trace"].update(lazy())
            except Machinery as e:     # the witness is an aid; the verdict stands without it
                v["trace"]["witness_error"] = str(e)
        for x in vs[1:]:
            x.pop("_lazy", None)
        path = os.path.join(rdir, f"{clause.replace('.', '_')}-{cls}.json")
        with open(path, "w") as f:
            json.dump({"property": ctx.pid, "clause": clause, "cls": cls, "count": len(vs),
                       "smallest": v, "others": [x.get("what") for x in vs[1:40]]}, f, indent=1)
        print(f"VIOLATION property={ctx.pid} replay={path} clause={clause} "
              f"first={v.get('what')} cases={len(vs)}")
        shown += 1
    cov = dict(coverage)
    cov.setdefault("states", sum(r["states"] for r in ctx.tlc_runs))
    cov.setdefault("transitions", sum(r["transitions"] for r in ctx.tlc_runs))
    cov["tlc_runs"] = ctx.tlc_runs
    ev = {"property_id": ctx.pid, "tier": ctx.tier, "seed": ctx.seed, "level": level,
          "coverage": cov, "assumptions": list(assumptions),
          "wall_s": round(time.time() - ctx.t0, 2), "violations": len(fresh),
          "known_findings_hit": sorted(listed)}
    if ctx.notes:
        ev["notes"] = ctx.notes
    os.makedirs(EVID, exist_ok=True)
    with open(os.path.join(EVID, f"{ctx.pid}.json"), "w") as f:
        json.dump(ev, f, indent=1)
    ctx.cleanup()
    if fresh:
        return 1
    print(f"OK property={ctx.pid} tier={ctx.tier} wall={ev['wall_s']}s "
          f"states={cov['states']} traces={cov.get('traces_validated_against_impl', 0)}")
    return 0


def main_guard(fn):
    try:
        return fn()
    except Machinery as e:
        print(f"MACHINERY-FAILURE: {e}", file=sys.stderr)
        return 2
