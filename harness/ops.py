"""The operation layer (spec/OpMachine.tla, spec/TraceOps.tla): the sequences returned by the public
functions of checkpoint_schedules.hrevolve_sequences are recorded and replayed on the operation
machine; for the Revolve-family classes the emitted action stream must be the image of the
class's own operation list under the conversion `Conv` of TraceOps.

The harness only ENCODES: operations as <<type, a, b, lev>>, costs as integers over `scale`.
"""
import contextlib
import io

from . import record
from .common import enc

OF, OB, OW, OR, OD, OWF, ODF, OX, OEND = 0, 1, 2, 3, 4, 5, 6, 99, 98
UNL = -1

_TY = {
    "Forward": OF, "Backward": OB,
    "Write": OW, "Write_memory": OW, "Write_disk": OW,
    "Read": OR, "Read_memory": OR, "Read_disk": OR,
    "Discard": OD, "Discard_memory": OD, "Discard_disk": OD,
    "Write_Forward": OWF, "Write_Forward_memory": OWF,
    "Discard_Forward": ODF, "Discard_Forward_memory": ODF, "Discard_Forward_disk": ODF,
}


def _int(v):
    v = enc(v)
    return v if -2 ** 31 < v < 2 ** 31 else 2 * 10 ** 9


def enc_op(op):
    ty = _TY.get(getattr(op, "type", None), OX)
    ix = getattr(op, "index", None)
    try:
        if ty in (OF, OB):
            return [ty, _int(ix[0]), _int(ix[1]), 0]
        if ty == OX:
            return [OX, 0, 0, 0]
        if isinstance(ix, (list, tuple)):
            return [ty, _int(ix[1]), 0, _int(ix[0])]
        lev = 1 if op.type.endswith("_disk") else 0
        return [ty, _int(ix), 0, lev]
    except Exception:
        return [OX, 0, 0, 0]


def enc_ops(seq):
    return [enc_op(o) for o in seq] + [[OEND, 0, 0, 0]]


def _scaled(x, scale):
    """A cost (possibly a float produced by float arithmetic) as an integer over `scale`."""
    try:
        v = float(x) * scale
    except Exception:
        return 2 * 10 ** 9
    if v != v or abs(v) >= 2 ** 31 - 1:
        return 2 * 10 ** 9
    r = round(v)
    return r if abs(v - r) < 1e-6 else 2 * 10 ** 9 - 1


def _claim(lst):
    try:
        return [_int(x) for x in lst]
    except Exception:
        return [-2]


def params(fn, l, cap, w, r, uf, ub, scale, mk, claim, pre=(), keep=(), memwf=0):
    return {"fn": fn, "l": l, "K": len(cap), "cap": list(cap), "w": list(w), "r": list(r), "uf": uf, "ub": ub,
            "scale": scale, "mk": mk, "claim": claim, "pre": [list(x) for x in pre], "keep": list(keep),
            "memwf": bool(memwf)}


def record_fn(cfg):
    from .common import timed, Hung
    try:
        return timed('ops-fn', lambda: _record_fn(cfg), 60)
    except Hung as ex:
        return {'cls': 'ops:' + cfg['fn'], 'cfg': cfg, 'hasacts': 0, 'acts': [], 'raised': 'Hung: ' + str(ex),
                'ev': [[OEND, 0, 0, 0]], 'p': params(cfg['fn'], cfg['l'], (0, 0), (0, 0), (0, 0), 0, 0, 1, 0, [[-1], [-1]])}


def _record_fn(cfg):
    """cfg: {"fn", "l", "cm" | "cvect", "costs": (uf, ub, wd, rd, scale) | hier: (uf, ub, wvect, rvect, scale)}.
    Costs are integers over `scale`; the library is called with cost/scale (floats when scale > 1)."""
    record.lib()
    from checkpoint_schedules import hrevolve_sequences as hs
    from checkpoint_schedules.hrevolve_sequences.utils import revolver_parameters
    fn, l = cfg["fn"], cfg["l"]
    t = {"cls": "ops:" + fn, "cfg": cfg, "hasacts": 0, "acts": []}
    sc = cfg["costs"][-1]

    def c(x):
        return x if sc == 1 else x / sc
    try:
        with contextlib.redirect_stdout(io.StringIO()):
            if fn == "hrevolve":
                uf, ub, wv, rv, _ = cfg["costs"]
                cv = tuple(cfg["cvect"])
                seq = hs.hrevolve(l, cv, [c(x) for x in wv], [c(x) for x in rv], c(uf), c(ub))
                ops = list(seq.concat_sequence_hierarchic(0)) if hasattr(seq, "concat_sequence_hierarchic") else list(seq)
                it = list(seq)
                if [enc_op(o) for o in it] != [enc_op(o) for o in ops]:
                    ops = it
                claim = [_claim(x) for x in seq.storage]
                t["p"] = params(fn, l, cv, wv, rv, uf, ub, sc, _scaled(seq.makespan, sc), claim)
            else:
                uf, ub, wd, rd, _ = cfg["costs"]
                cm = cfg["cm"]
                if fn == "revolve":
                    seq = hs.revolve(l, cm, rd=c(rd), wd=c(wd), fwd_cost=c(uf), bwd_cost=c(ub))
                    cap, pre, keep = (cm, 0), (), ()
                elif fn == "revolve_1d":
                    prm = revolver_parameters(c(wd), c(rd), c(uf), c(ub))
                    prm["one_read_disk"] = bool(cfg.get("one_read", True))
                    from checkpoint_schedules.hrevolve_sequences.basic_functions import Table  # noqa: F401
                    from checkpoint_schedules.hrevolve_sequences.revolve import get_opt_0_table
                    from checkpoint_schedules.hrevolve_sequences.revolve_1d import get_opt_1d_table
                    if cfg.get("tables", True):
                        o0 = get_opt_0_table(l, cm, c(uf), c(ub))
                        o1 = get_opt_1d_table(l, cm, c(ub), c(uf), c(rd), prm["one_read_disk"], opt_0=o0)
                        seq = hs.revolve_1d(l, cm, opt_0=o0, opt_1d=o1, **prm)
                    else:
                        seq = hs.revolve_1d(l, cm, **prm)
                    cap, pre, keep = (cm, 1), ((1, 0),), (2,)
                elif fn == "disk_revolve":
                    seq = hs.disk_revolve(l, cm, rd=c(rd), wd=c(wd), fwd_cost=c(uf), bwd_cost=c(ub))
                    cap, pre, keep = (cm, UNL), (), ()
                elif fn == "periodic_disk_revolve":
                    seq = hs.periodic_disk_revolve(l, cm, rd=c(rd), wd=c(wd), uf=c(uf), ub=c(ub))
                    cap, pre, keep = (cm, UNL), (), ()
                else:
                    raise ValueError(fn)
                ops = list(seq)
                claim = [_claim(seq.memory), _claim(seq.disk)]
                t["p"] = params(fn, l, cap, (0, wd), (0, rd), uf, ub, sc, _scaled(seq.makespan, sc), claim,
                                pre=pre, keep=keep, memwf=1)
        t["ev"] = enc_ops(ops)
    except Exception as ex:          # the function raised: recorded, judged by the caller
        t["raised"] = f"{type(ex).__name__}: {ex}"[:200]
        t["ev"] = [[OEND, 0, 0, 0]]
        t["p"] = params(fn, l, (0, 0), (0, 0), (0, 0), 0, 0, 1, 0, [[-1], [-1]])
    return t


def enc_act(a):
    from checkpoint_schedules import Forward, Reverse, Copy, Move, EndForward, EndReverse, StorageType
    sto = {StorageType.RAM: 0, StorageType.DISK: 1, StorageType.WORK: 2, StorageType.NONE: 3}
    if isinstance(a, Forward):
        return [0, _int(a.n0), _int(a.n1), int(bool(a.write_ics)), int(bool(a.write_adj_deps)), sto.get(a.storage, 4), 3]
    if isinstance(a, Reverse):
        return [1, _int(a.n1), _int(a.n0), int(bool(a.clear_adj_deps)), 0, 3, 3]
    if isinstance(a, (Copy, Move)):
        return [2 if isinstance(a, Copy) else 3, _int(a.n), 0, 0, 0, sto.get(a.from_storage, 4), sto.get(a.to_storage, 4)]
    if isinstance(a, EndForward):
        return [4, 0, 0, 0, 0, 3, 3]
    if isinstance(a, EndReverse):
        return [5, 0, 0, 0, 0, 3, 3]
    return [9, 0, 0, 0, 0, 3, 3]


def record_class(cfg):
    from .common import timed, Hung
    try:
        return timed('ops-cls', lambda: _record_class(cfg), 60)
    except Hung as ex:
        return {'cls': 'conv:' + cfg['cls'], 'cfg': cfg, 'hasacts': 1, 'acts': [], 'raised': 'Hung: ' + str(ex),
                'ev': [[OEND, 0, 0, 0]], 'p': params(cfg['cls'], cfg['max_n'] - 1, (0, 0), (0, 0), (0, 0), 0, 0, 1, 0, [[-1], [-1]])}


def _record_class(cfg):
    """A Revolve-family class: its private operation list and the stream it makes of it."""
    record.lib()
    import checkpoint_schedules as cs
    cls, n, ram, disk = cfg["cls"], cfg["max_n"], cfg["ram"], cfg.get("disk", 0)
    uf, ub, wd, rd, sc = cfg["costs"]

    def c(x):
        return x if sc == 1 else x / sc
    t = {"cls": "conv:" + cls, "cfg": cfg, "hasacts": 1}
    try:
        with contextlib.redirect_stdout(io.StringIO()):
            kw = dict(uf=c(uf), ub=c(ub), wd=c(wd), rd=c(rd))
            if cls == "HRevolve":
                obj = cs.HRevolve(n, ram, disk, **kw)
                cap = (ram, disk)
            else:
                obj = getattr(cs, cls)(n, ram, **kw)
                cap = (ram, 0 if cls == "Revolve" else UNL)
            ops = list(obj._schedule)
            acts = []
            for a in obj:
                acts.append(enc_act(a))
                if len(acts) > 40 * len(ops) + 100:
                    break
        t["p"] = params(cls, n - 1, cap, (0, wd), (0, rd), uf, ub, sc, -1, [[-1], [-1]])
        t["ev"] = enc_ops(ops)
        t["acts"] = acts
    except Exception as ex:
        t["raised"] = f"{type(ex).__name__}: {ex}"[:200]
        t["ev"] = [[OEND, 0, 0, 0]]
        t["acts"] = []
        t["p"] = params(cls, n - 1, (0, 0), (0, 0), (0, 0), 0, 0, 1, 0, [[-1], [-1]])
    return t
