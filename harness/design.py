"""Design-level runs (TLC alone, no code in the loop): the executor specification running
free must be consistent with itself, and not vacuously so."""
from . import tlc, framework as fw

HOLD = {"quick": ["ExecFree.cfg"], "thorough": ["ExecFree.cfg", "ExecFree4.cfg", "ExecFreeRepeat.cfg"]}
REACH = {"quick": ["ExecFreeReach_ReachDone.cfg", "ExecFreeReach_ReachDepsCkpt.cfg"],
         "thorough": ["ExecFreeReach_ReachDone.cfg", "ExecFreeReach_ReachSecondPass.cfg",
                      "ExecFreeReach_ReachFullRam.cfg", "ExecFreeReach_ReachDepsCkpt.cfg"]}


def apalache_inductive(ctx):
    """Unbounded-n argument (thorough tier): ExecInd.IndInv holds initially and is preserved by every
    step, for a symbolic number of steps N (Apalache, SMT).  Optional: if Apalache cannot be run the
    result says so; an Apalache counterexample is a defect of the specification (exit 2)."""
    import os
    import shutil
    import subprocess
    from .common import VERIF
    exe = shutil.which("apalache-mc")
    if not exe:
        return {"apalache": "not available"}
    res = {}
    for name, args in (("base", ["--init=Init", "--length=0"]), ("step", ["--init=IndInit", "--length=1"])):
        od = os.path.join(ctx.dir, "apa-" + name)
        try:
            p = subprocess.run([exe, "check", "--cinit=ConstInit", "--inv=IndInv", f"--out-dir={od}", *args,
                                os.path.join(VERIF, "spec", "ExecInd.tla")], capture_output=True, text=True,
                               timeout=600, cwd=ctx.dir)
        except subprocess.TimeoutExpired:
            return {"apalache": "timeout"}
        if "The outcome is: NoError" in p.stdout:
            res[name] = "NoError"
        elif "Checker has found an error" in p.stdout:
            raise fw.Machinery(f"Apalache: ExecInd.IndInv is not inductive ({name})")
        else:
            return {"apalache": "could not run: " + p.stdout[-200:]}
    return {"apalache": "IndInv inductive for symbolic N in 1..10^6", **res}


def tlaps_proof(ctx):
    """Unbounded proof (thorough tier): tlapm checks ExecIndProof.tla - IndInv is an invariant of the
    executor core for EVERY N >= 1 (Init => IndInv, IndInv /\\ [Next]_vars => IndInv', PTL).  Optional:
    if tlapm cannot be run the result says so; a failed obligation is a defect of the specification."""
    import os
    import re
    import shutil
    import subprocess
    from .common import VERIF
    exe = shutil.which("tlapm")
    if not exe:
        return {"tlaps": "not available"}
    wd = os.path.join(ctx.dir, "tlaps")
    os.makedirs(wd, exist_ok=True)
    for f in ("ExecIndCore.tla", "ExecIndProof.tla"):
        shutil.copy(os.path.join(VERIF, "spec", f), wd)
    try:
        p = subprocess.run([exe, "--toolbox", "0", "0", "ExecIndProof.tla"], capture_output=True, text=True,
                           timeout=900, cwd=wd)
    except subprocess.TimeoutExpired:
        return {"tlaps": "timeout"}
    out = p.stdout + p.stderr
    m = re.search(r"All (\d+) obligations proved", out)
    if m:
        return {"tlaps": f"ExecIndProof: all {m.group(1)} obligations proved (IndInv invariant for every N >= 1)"}
    m = re.search(r"(\d+)/(\d+) obligations failed", out)
    if m:
        raise fw.Machinery(f"TLAPS: {m.group(0)} in ExecIndProof.tla")
    return {"tlaps": "could not run: " + out[-200:]}


def run(ctx):
    out = []
    for cfg in HOLD[ctx.tier]:
        r = tlc.run("ExecFree", cfg=cfg, timeout=900, workers=12)
        ctx.add_run("ExecFree/" + cfg, r)
        if not r["ok"]:
            raise fw.Machinery(f"the free executor specification violates its own invariants ({cfg}): "
                               f"{tlc.invariant_violated(r)} {r['error']}")
        out.append({"cfg": cfg, "states": r["distinct"], "holds": True})
    for cfg in REACH[ctx.tier]:
        r = tlc.run("ExecFree", cfg=cfg, timeout=300, workers=12)
        ctx.add_run("ExecFree/" + cfg, r)
        if tlc.invariant_violated(r) is None:
            raise fw.Machinery(f"vacuity: {cfg} expected a reachability witness, TLC found none")
        out.append({"cfg": cfg, "reachable": True})
    if ctx.tier != "quick":
        out.append(apalache_inductive(ctx))
        out.append(tlaps_proof(ctx))
    return out


def refines(ctx, kind):
    """ExecOpt is a sound abstraction of Executor (step simulation checked by TLC), plus the
    negative control.  kind: "bin" | "mix" | "hier"."""
    cfgs = {"bin": ["ExecRefines.cfg"], "mix": ["ExecRefinesMixed.cfg"], "hier": ["ExecRefines.cfg"]}[kind]
    if ctx.tier != "quick" and kind != "mix":
        cfgs.append("ExecRefines22.cfg")
    out = []
    for cfg in cfgs:
        r = tlc.run("ExecRefines", cfg=cfg, timeout=1200, workers=12)
        ctx.add_run("ExecRefines/" + cfg, r)
        if not r["ok"]:
            raise fw.Machinery(f"ExecOpt does not simulate Executor ({cfg}): {tlc.invariant_violated(r)} "
                               f"{r['error']}")
        out.append({"cfg": cfg, "states": r["distinct"], "refines": True})
    import os
    from .common import VERIF
    a = tlc.run("ExecOpt", cfg="ExecOptAdm.cfg", timeout=600, workers=8,
                env={"INST_FILE": os.path.join(VERIF, "spec", "ExecOptAdm.json")})
    ctx.add_run("ExecOpt/admissible-bound", a)
    if not a["ok"]:
        raise fw.Machinery(f"the pruning bound of the optimality search is not admissible: {a['error']}")
    out.append({"cfg": "ExecOptAdm.cfg", "states": a["distinct"], "pruning_bound_admissible": True})
    r = tlc.run("ExecRefines", cfg="ExecRefinesNeg.cfg", timeout=300, workers=4)
    ctx.add_run("ExecRefines/neg", r)
    if tlc.invariant_violated(r) is None:
        raise fw.Machinery("vacuity: the negative control of the refinement check was not violated")
    out.append({"cfg": "ExecRefinesNeg.cfg", "violated_as_expected": True})
    return out


def gen_basic(ctx):
    """The generator models of the basic schedules composed with Executor/SchedAPI: every
    interleaving of next() and finalize(-1..3) up to 12 calls, no clause may fail."""
    out = []
    for cls in ("SingleMemory", "SingleDiskCopy", "SingleDiskMove", "None"):
        r = tlc.run("GenBasicFree", cfg=f"GenBasicFree_{cls}.cfg", timeout=600, workers=4)
        ctx.add_run("GenBasicFree/" + cls, r)
        if not r["ok"]:
            raise fw.Machinery(f"generator model {cls} fails a clause at design level: "
                               f"{tlc.invariant_violated(r)} {r['error']}")
        out.append({"model": cls, "states": r["distinct"], "all_clauses_hold": True})
    return out


def gen_binomial(ctx):
    """GenBinomial: every resolution of the Bellman-optimal step choice is executable, clean and
    takes the closed-form number of forward steps (design level, no code)."""
    cfg = "GenBinomial.cfg" if ctx.tier == "quick" else "GenBinomial14.cfg"
    r = tlc.run("GenBinomial", cfg=cfg, timeout=1200, workers=12)
    ctx.add_run("GenBinomial/" + cfg, r)
    if not r["ok"]:
        raise fw.Machinery(f"the binomial generator model fails at design level ({cfg}): "
                           f"{tlc.invariant_violated(r)} {r['error']}")
    rr = tlc.run("GenBinomial", cfg="GenBinomialReach.cfg", timeout=300, workers=4)
    ctx.add_run("GenBinomial/reach", rr)
    if tlc.invariant_violated(rr) is None:
        raise fw.Machinery("vacuity: the binomial generator model never reaches its end")
    lv = tlc.run("GenBinomial", cfg="GenBinomialLive.cfg", timeout=600, workers=4)
    ctx.add_run("GenBinomial/liveness", lv)
    if not lv["ok"]:
        raise fw.Machinery(f"the binomial generator model does not terminate under fairness: {lv['error']}")
    return {"cfg": cfg, "states": r["distinct"], "all_clauses_hold": True, "optimal_steps": True,
            "terminates_under_weak_fairness": True}


def gen_mixed(ctx):
    """GenMixed: every resolution of the optimal planner choice is executable, clean, takes the
    optimum of the mixed recurrence, and terminates (design level, no code)."""
    cfg = "GenMixed.cfg" if ctx.tier == "quick" else "GenMixed14.cfg"
    r = tlc.run("GenMixed", cfg=cfg, timeout=1200, workers=12)
    ctx.add_run("GenMixed/" + cfg, r)
    if not r["ok"]:
        raise fw.Machinery(f"the mixed generator model fails at design level ({cfg}): "
                           f"{tlc.invariant_violated(r)} {r['error']}")
    rr = tlc.run("GenMixed", cfg="GenMixedReach.cfg", timeout=300, workers=4)
    ctx.add_run("GenMixed/reach", rr)
    if tlc.invariant_violated(rr) is None:
        raise fw.Machinery("vacuity: the mixed generator model never reaches its end")
    lv = tlc.run("GenMixed", cfg="GenMixedLive.cfg", timeout=600, workers=4)
    ctx.add_run("GenMixed/liveness", lv)
    if not lv["ok"]:
        raise fw.Machinery(f"the mixed generator model does not terminate under fairness: {lv['error']}")
    return {"cfg": cfg, "states": r["distinct"], "all_clauses_hold": True, "optimal_steps": True,
            "terminates_under_weak_fairness": True}


def gen_disk(ctx):
    """GenDisk: Disk-Revolve and Periodic-Disk-Revolve with every resolution of their choices (any split
    attaining the recurrence, any Bellman-optimal binomial advance): no clause fails, nothing gets stuck,
    the cost is the value of the Disk-Revolve recurrence, every disk checkpoint is read once, every
    resolution terminates (design level, no code)."""
    cfgs = ["GenDisk.cfg", "GenDisk_2.cfg", "GenDisk_cheap.cfg", "GenDisk_free.cfg", "GenDiskPeriodic.cfg",
            "GenDiskPeriodic_1.cfg"]
    out = []
    for cfg in cfgs:
        r = tlc.run("GenDisk", cfg=cfg, timeout=600, workers=4)
        ctx.add_run("GenDisk/" + cfg, r)
        if not r["ok"]:
            raise fw.Machinery(f"the Disk-Revolve generator model fails at design level ({cfg}): "
                               f"{tlc.invariant_violated(r)} {r['error']}")
        out.append({"cfg": cfg, "states": r["distinct"], "all_clauses_hold": True})
    rr = tlc.run("GenDisk", cfg="GenDiskReach.cfg", timeout=300, workers=4)
    ctx.add_run("GenDisk/reach", rr)
    if tlc.invariant_violated(rr) is None:
        raise fw.Machinery("vacuity: the Disk-Revolve generator model never reads a disk checkpoint")
    lv = tlc.run("GenDisk", cfg="GenDiskLive.cfg", timeout=600, workers=4)
    ctx.add_run("GenDisk/liveness", lv)
    if not lv["ok"]:
        raise fw.Machinery(f"the Disk-Revolve generator model does not terminate under fairness: {lv['error']}")
    out.append({"cfg": "GenDiskLive.cfg", "terminates_under_weak_fairness": True})
    return out


def gen_twolevel(ctx):
    """GenTwoLevel: every interleaving of next()/finalize(k), every consistent finalisation point,
    every resolution of the step choice, two adjoint passes: no clause fails, every pass takes
    the sum over blocks of the closed-form optimum (design level, no code)."""
    cfgs = ["GenTwoLevel_2_1.cfg", "GenTwoLevel_3_1.cfg", "GenTwoLevel_4_2.cfg", "GenTwoLevel_3_0.cfg",
            "GenTwoLevel_6_1.cfg", "GenTwoLevel_3_1_disk.cfg"]
    out = []
    for cfg in cfgs:
        r = tlc.run("GenTwoLevel", cfg=cfg, timeout=600, workers=8)
        ctx.add_run("GenTwoLevel/" + cfg, r)
        if not r["ok"]:
            raise fw.Machinery(f"the TwoLevel generator model fails at design level ({cfg}): "
                               f"{tlc.invariant_violated(r)} {r['error']}")
        out.append({"cfg": cfg, "states": r["distinct"], "all_clauses_hold": True})
    rr = tlc.run("GenTwoLevel", cfg="GenTwoLevelReach.cfg", timeout=300, workers=4)
    ctx.add_run("GenTwoLevel/reach", rr)
    if tlc.invariant_violated(rr) is None:
        raise fw.Machinery("vacuity: the TwoLevel generator model never reaches a second pass")
    return out
