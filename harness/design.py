"""Design-level runs (TLC alone, no code in the loop): the executor specification running
free must be consistent with itself, and not vacuously so."""
from . import tlc, framework as fw

HOLD = {"quick": ["ExecFree.cfg"], "thorough": ["ExecFree.cfg", "ExecFree4.cfg", "ExecFreeRepeat.cfg"]}
REACH = {"quick": ["ExecFreeReach_ReachDone.cfg", "ExecFreeReach_ReachDepsCkpt.cfg"],
         "thorough": ["ExecFreeReach_ReachDone.cfg", "ExecFreeReach_ReachSecondPass.cfg",
                      "ExecFreeReach_ReachFullRam.cfg", "ExecFreeReach_ReachDepsCkpt.cfg"]}


def run(ctx):
    out = []
    for cfg in HOLD[ctx.tier]:
        r = tlc.run("ExecFree", cfg=cfg, timeout=900, workers=12)
        ctx.add_run("ExecFree/" + cfg, r)
        if not r["ok"]:
            raise fw.Machinery(f"the free executor specification violates its own invariants ({cfg}): "
                               f"{tlc.invariant_violated(r)} {r['error']}")
        out.append({"cfg": cfg, "states": r["distinct"], "holds": True})
    for cfg in REACH[ctx.tier]:
        r = tlc.run("ExecFree", cfg=cfg, timeout=300, workers=12)
        ctx.add_run("ExecFree/" + cfg, r)
        if tlc.invariant_violated(r) is None:
            raise fw.Machinery(f"vacuity: {cfg} expected a reachability witness, TLC found none")
        out.append({"cfg": cfg, "reachable": True})
    return out
