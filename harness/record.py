"""code -> spec: drive real schedule objects and log every public call as a trace.

One trace = one schedule object.  After *every* call (next / finalize / pure
observation) the full observable state is logged: n, r, max_n, is_exhausted,
is_running and uses_storage_type for the four StorageType members.

Event layout (a JSON array, decoded by spec/TraceExec.tla):
  [c, o, k, a, b, wi, wd, s, t, n, r, m, x, g, u, ty]
   c  call: 0 next, 1 finalize, 2 observe only
   o  outcome: next -> 0 action, 1 StopIteration, 2 other exception
               finalize -> 0 ok, 1 ValueError, 2 RuntimeError, 3 other
   k  action kind 0 F, 1 R, 2 Copy, 3 Move, 4 EndForward, 5 EndReverse, 9 none
   a,b   F: n0,n1   R: n1,n0   Copy/Move: n,0   finalize: argument,0
   wi,wd F: write_ics, write_adj_deps   R: clear_adj_deps,0
   s,t   F: storage,3   Copy/Move: from,to      (0 RAM 1 DISK 2 WORK 3 NONE 4 other)
   n,r,m reported n, r, max_n (-1 = None)  after the call
   x,g   is_exhausted, is_running  (0/1; 2 truthy non-bool; 3 falsy non-bool; 4 raised)
   u     uses_storage_type(RAM|DISK|WORK|NONE) as base-8 digits (same codes as x)
   ty    base-8 digits: python type tag of each action argument (see common.tycode)
"""
import contextlib
import io
import json
import os
import sys
import warnings

from . import common
from .common import (enc, stcode, flag, tyword, C_NEXT, C_FIN, C_OBS, O_ACT, O_STOP,
                     O_EXC, F_OK, F_VALUE, F_RUNTIME, F_OTHER, K_F, K_R, K_C, K_M, K_EF,
                     K_ER, K_NONE)

_cs = None


def lib():
    global _cs
    if _cs is None:
        _cs = common.use_repo(numba_stub=os.environ.get("VERIF_NUMBA_STUB") == "1")
        warnings.simplefilter("ignore")
    return _cs


def build(cfg):
    """Construct the schedule object of a configuration record."""
    cs = lib()
    from checkpoint_schedules import StorageType
    p = cfg["p"]
    if cfg.get("npargs"):        # the same integers, passed as numpy.int64
        import numpy
        p = {k: (numpy.int64(v) if isinstance(v, int) and k in ("max_n", "ram", "disk", "period") else v)
             for k, v in p.items()}
    c = cfg["cls"]
    st = {0: StorageType.RAM, 1: StorageType.DISK, 2: StorageType.WORK,
          3: StorageType.NONE}.get(p.get("st", 1))
    traj = {0: "maximum", 1: "revolve"}.get(p.get("traj", 0), "bogus")
    if c == "SingleMemory":
        return cs.SingleMemoryStorageSchedule()
    if c == "SingleDiskCopy":
        return cs.SingleDiskStorageSchedule(move_data=False)
    if c == "SingleDiskMove":
        return cs.SingleDiskStorageSchedule(move_data=True)
    if c == "None":
        return cs.NoneCheckpointSchedule()
    if c == "Multistage":
        return cs.MultistageCheckpointSchedule(p["max_n"], p["ram"], p["disk"],
                                               trajectory=traj)
    if c == "Mixed":
        return cs.MixedCheckpointSchedule(p["max_n"], p["ram"], storage=st)
    if c == "TwoLevel":
        return cs.TwoLevelCheckpointSchedule(p["period"], p["ram"], binomial_storage=st,
                                             binomial_trajectory=traj)
    sc = p.get("scale", 1)      # costs are integers / scale (scale 10: one decimal place)
    costs = {k: (p[k] if sc == 1 else p[k] / sc) for k in ("uf", "ub", "wd", "rd")}
    if c == "Revolve":
        return cs.Revolve(p["max_n"], p["ram"], **costs)
    if c == "DiskRevolve":
        return cs.DiskRevolve(p["max_n"], p["ram"], **costs)
    if c == "PeriodicDiskRevolve":
        return cs.PeriodicDiskRevolve(p["max_n"], p["ram"], **costs)
    if c == "HRevolve":
        return cs.HRevolve(p["max_n"], p["ram"], p["disk"], **costs)
    raise ValueError(c)


PDEF = dict(max_n=-1, ram=-1, disk=-1, traj=0, st=1, period=-1, uf=1, ub=1, wd=2, rd=2)


def mkcfg(cls, N=None, passes=1, **p):
    q = dict(PDEF)
    q.update(p)
    if N is None:
        N = q["max_n"]
    return {"cls": cls, "p": q, "N": N, "passes": passes}


def _obs_flag(fn):
    try:
        return flag(fn())
    except Exception:
        return 4


class Driver:
    """Wraps one schedule object; logs one event per public call."""

    def __init__(self, cfg):
        self.cfg = cfg
        self.ev = []
        self.out = io.StringIO()
        self.ctor = 0
        self.obj = None
        self.last_action = None
        lib()
        from checkpoint_schedules import StorageType
        self._members = [StorageType.RAM, StorageType.DISK, StorageType.WORK,
                         StorageType.NONE]
        with contextlib.redirect_stdout(self.out):
            try:
                self.obj = build(cfg)
            except Exception as e:  # constructor rejected the parameters
                self.ctor = {"ValueError": 1, "AssertionError": 2, "KeyError": 3,
                             "IndexError": 4, "TypeError": 5,
                             "RuntimeError": 6}.get(type(e).__name__, 9)
                self.ctor_exc = repr(e)[:120]
        if self.obj is not None:
            self.do_obs()      # event 1: the observers before anything is requested
            if not self.cfg.get("bare"):
                with contextlib.redirect_stdout(self.out):
                    try:
                        iter(self.obj)     # what `for action in schedule:` does first; requests no action
                    except Exception:
                        pass
            self.do_obs()      # event 2: ... and after iter(schedule)

    def observe(self):
        o = self.obj
        if self.cfg.get("bare"):          # reference runs: bare next() calls, no observer is ever read
            return [0, 0, -1, 0, 0, 0]

        def g(name):
            try:
                v = getattr(o, name)
            except Exception:
                return common.WEIRD
            if v is None:
                return -1
            return enc(v)
        u = 0
        for i, m in enumerate(self._members):
            u += _obs_flag(lambda m=m: o.uses_storage_type(m)) * (8 ** i)
        return [g("n"), g("r"), g("max_n"),
                _obs_flag(lambda: o.is_exhausted), _obs_flag(lambda: o.is_running), u]

    def _log(self, head):
        self.ev.append(head + self.observe())

    def do_next(self):
        from checkpoint_schedules import (Forward, Reverse, Copy, Move, EndForward,
                                          EndReverse)
        self.last_action = None
        with contextlib.redirect_stdout(self.out):
            try:
                if self.cfg.get("forloop"):
                    # the documented driving style: `for action in schedule: ...; break` at the end of
                    # the forward / of an adjoint calculation, then a NEW for loop on the same object
                    if getattr(self, "_it", None) is None:
                        self._it = iter(self.obj)
                    a = next(self._it)
                    if type(a).__name__ in ("EndForward", "EndReverse"):
                        self._it = None      # leaving the loop drops the iterator
                else:
                    a = next(self.obj)
            except StopIteration:
                self._log([C_NEXT, O_STOP, K_NONE, 0, 0, 0, 0, 3, 3])
                self.ev[-1].append(0)
                return "stop"
            except Exception as e:
                self._log([C_NEXT, O_EXC, K_NONE, 0, 0, 0, 0, 3, 3])
                self.ev[-1].append(0)
                self.exc = repr(e)[:120]
                return "exc"
        self.last_action = a
        t = type(a)
        args = getattr(a, "args", ())
        if t is Forward and len(args) == 5:
            head = [C_NEXT, O_ACT, K_F, enc(args[0]), enc(args[1]), flag(args[2]),
                    flag(args[3]), stcode(args[4]), 3]
        elif t is Reverse and len(args) == 3:
            head = [C_NEXT, O_ACT, K_R, enc(args[0]), enc(args[1]), flag(args[2]), 0, 3, 3]
        elif t in (Copy, Move) and len(args) == 3:
            head = [C_NEXT, O_ACT, K_C if t is Copy else K_M, enc(args[0]), 0, 0, 0,
                    stcode(args[1]), stcode(args[2])]
        elif t is EndForward and len(args) == 0:
            head = [C_NEXT, O_ACT, K_EF, 0, 0, 0, 0, 3, 3]
        elif t is EndReverse and len(args) == 0:
            head = [C_NEXT, O_ACT, K_ER, 0, 0, 0, 0, 3, 3]
        else:
            head = [C_NEXT, O_ACT, K_NONE, 0, 0, 0, 0, 3, 3]
        self._log(head)
        # base-8 digits 0..4: argument type tags; digit 5: does eval(repr(action)) give back an equal action
        # (same class, equal args)?  1 yes, 0 no, 4 raised
        self.ev[-1].append(tyword(args) + 8 ** 5 * self._repr_roundtrip(a))
        return "act"

    _ns = None

    def _repr_roundtrip(self, a):
        if Driver._ns is None:
            import numpy
            import checkpoint_schedules as pkg
            ns = {"sys": sys, "numpy": numpy, "np": numpy, "StorageType": pkg.StorageType}
            for name in ("Forward", "Reverse", "Copy", "Move", "EndForward", "EndReverse"):
                ns[name] = getattr(pkg, name)
            Driver._ns = ns
        try:
            x = eval(repr(a), dict(Driver._ns))
            return 1 if (type(x) is type(a) and tuple(x.args) == tuple(a.args)) else 0
        except Exception:
            return 4

    def do_finalize(self, k):
        with contextlib.redirect_stdout(self.out):
            try:
                self.obj.finalize(k)
                o = F_OK
            except ValueError:
                o = F_VALUE
            except RuntimeError:
                o = F_RUNTIME
            except Exception:
                o = F_OTHER
        self._log([C_FIN, o, K_NONE, enc(k), 0, 0, 0, 3, 3])
        self.ev[-1].append(0)
        return o

    def do_obs(self):
        self._log([C_OBS, 0, K_NONE, 0, 0, 0, 0, 3, 3])
        self.ev[-1].append(0)

    def trace(self, **extra):
        t = {"cls": self.cfg["cls"], "p": self.cfg["p"], "N": self.cfg["N"],
             "passes": self.cfg["passes"], "ctor": self.ctor, "hung": 0, "capped": 0,
             "sib": 0, "sibo": self.cfg.get("sibo", 0), "siblen": 0, "prefix": 0, "ev": self.ev}
        if "grp" in self.cfg:
            t["grp"] = self.cfg["grp"]
        if "calls" in self.cfg:
            t["calls"] = self.cfg["calls"]
        t.update(extra)
        return t


ONLINE = {"SingleMemory", "SingleDiskCopy", "SingleDiskMove", "None", "TwoLevel"}
REPEATING = {"SingleMemory", "SingleDiskCopy", "TwoLevel"}


def canonical(cfg, extra_next=3, cap=None):
    """Drive one object exactly as a client would: next() until the requested
    number of adjoint calculations has completed (or StopIteration), finalize(N)
    as soon as a Forward reaches step N, then `extra_next` more next() calls."""
    d = Driver(cfg)
    if d.obj is None:
        return d.trace()
    from checkpoint_schedules import Forward, EndReverse, EndForward
    N = cfg["N"]
    want = cfg["passes"]
    if cap is None:
        cap = (4 * N * N + 100 * N + 300) * max(1, want)      # a legitimate stream is far shorter (s = 1: ~N^2/2)
    finalized = cfg["cls"] not in ONLINE
    ers = 0
    extra = None
    while len(d.ev) < cap:
        r = d.do_next()
        if extra is not None:
            extra -= 1
            if extra <= 0:
                break
            continue
        if r != "act":
            extra = extra_next - 1
            if extra <= 0:
                break
            continue
        a = d.last_action
        if (not finalized) and isinstance(a, Forward):
            try:
                reached = a.n1 >= N
            except Exception:
                reached = False
            if reached:
                finalized = True
                d.do_finalize(N)
        if isinstance(a, EndReverse):
            ers += 1
            if ers >= want:
                extra = extra_next
        if isinstance(a, EndForward) and want == 0:
            extra = extra_next
    capped = len(d.ev) >= cap
    return d.trace(capped=int(capped))


def prefix(cfg, k):
    """Construct, then only the first k next() calls (with the canonical finalize): giants whose
    complete stream would be too long, recorded to see that they start at all."""
    d = Driver(cfg)
    if d.obj is None:
        return d.trace(prefix=1)
    from checkpoint_schedules import Forward
    finalized = cfg["cls"] not in ONLINE
    for _ in range(k):
        r = d.do_next()
        a = d.last_action
        if r == "act" and not finalized and isinstance(a, Forward) and a.n1 >= cfg["N"]:
            finalized = True
            d.do_finalize(cfg["N"])
    return d.trace(prefix=1)


def scripted(cfg, calls):
    """spec -> code: replay a call history chosen by TLC.  calls: list of
    ("next",) / ("fin", k) / ("obs",)."""
    d = Driver(cfg)
    if d.obj is None:
        return d.trace()
    for c in calls:
        if c[0] == "next":
            d.do_next()
        elif c[0] == "fin":
            d.do_finalize(c[1])
        else:
            d.do_obs()
    return d.trace()


class _Hang(BaseException):
    pass


def _alarm(signum, frame):
    raise _Hang()


WATCHDOG_S = int(os.environ.get("VERIF_WATCHDOG", "45"))
_HUNG = None      # shared counter (inherited by the forked workers): after many hangs the watchdog gets short


def _hung_counter():
    global _HUNG
    if _HUNG is None:
        import multiprocessing as mp
        _HUNG = mp.get_context("fork").Value("i", 0)
    return _HUNG


def _work(cfg):
    """One configuration -> one trace.  A per-case watchdog turns a hang of the library
    into an outcome ("hung": 1) instead of a hang of the harness."""
    import signal
    signal.signal(signal.SIGALRM, _alarm)
    hung = _hung_counter()
    signal.alarm(min(cfg.get("watchdog", WATCHDOG_S), WATCHDOG_S) if hung.value < 8 else 3)
    try:
        if "calls" in cfg:
            return scripted(cfg, cfg["calls"])
        if cfg.get("prefix"):
            return prefix(cfg, cfg["prefix"])
        return canonical(cfg)
    except _Hang:
        with hung.get_lock():
            hung.value += 1
        return {"cls": cfg["cls"], "p": cfg["p"], "N": cfg["N"], "passes": cfg["passes"],
                "ctor": 0, "hung": 1, "capped": 0, "sib": 0, "sibo": cfg.get("sibo", 0), "siblen": 0, "prefix": cfg.get("prefix", 0), "ev": []}
    except BaseException as e:  # machinery failure, reported by the caller
        return {"machinery": repr(e), "cfg": cfg}
    finally:
        signal.alarm(0)


def record_many(cfgs, procs=None):
    """Record all configurations in parallel worker processes."""
    import multiprocessing as mp
    procs = procs or min(16, os.cpu_count() or 1)
    if len(cfgs) < 32 or procs == 1:
        lib()
        return [_work(c) for c in cfgs]
    ctx = mp.get_context("fork")
    lib()
    _hung_counter()
    # a fixed pseudo-random order spreads slow or hanging configurations over the workers
    import random
    order = list(range(len(cfgs)))
    random.Random(12345).shuffle(order)
    with ctx.Pool(procs) as pool:
        res = pool.map(_work, [cfgs[i] for i in order], chunksize=max(1, len(cfgs) // (procs * 16)))
    out = [None] * len(cfgs)
    for i, r in zip(order, res):
        out[i] = r
    return out


if __name__ == "__main__":
    cfg = json.loads(sys.argv[1])
    print(json.dumps(canonical(cfg)))
