"""Running TLC (always under a timeout) and reading its statistics / marked output."""
import os
import re
import shutil
import subprocess
import time

from .common import VERIF
from . import tlaval

JAR = "/opt/veriftools/tla/tla2tools.jar:/opt/veriftools/tla/CommunityModules-deps.jar"
SPEC = os.path.join(VERIF, "spec")


class Machinery(Exception):
    """The verification machinery itself failed (exit code 2, never a VIOLATION)."""


def run(module, cfg=None, env=None, workers=16, timeout=900, args=(), heap="8g",
        metadir=None, jvm=(), cwd=None, simulate=None):
    """Run TLC on spec/<module>.tla with spec/<cfg>.  Returns a dict with stdout,
    generated, distinct, depth, wall, error (None or the TLC error text)."""
    cwd = cwd or SPEC
    cfg = cfg or (module + ".cfg")
    meta = metadir or os.path.join(VERIF, "out", "meta", f"{module}-{os.getpid()}-{time.time_ns()}")
    os.makedirs(meta, exist_ok=True)
    cmd = ["java", "-XX:+UseParallelGC", f"-Xmx{heap}", "-Xss64m", *jvm, "-cp", JAR, "tlc2.TLC",
           "-workers", str(workers), "-metadir", meta, "-noGenerateSpecTE",
           "-config", cfg]
    if simulate:
        cmd += ["-simulate", simulate]
    cmd += list(args) + [module + ".tla"]
    e = dict(os.environ)
    e.update(env or {})
    t0 = time.time()
    try:
        p = subprocess.run(cmd, cwd=cwd, env=e, capture_output=True, text=True,
                           timeout=timeout)
        out = p.stdout + p.stderr
        rc = p.returncode
    except subprocess.TimeoutExpired as ex:
        out = (ex.stdout or b"").decode("utf-8", "replace") if isinstance(ex.stdout, bytes) else (ex.stdout or "")
        rc = -9
        subprocess.run(["pkill", "-f", meta], capture_output=True)
    finally:
        shutil.rmtree(meta, ignore_errors=True)
    wall = time.time() - t0
    res = {"stdout": out, "rc": rc, "wall": wall, "cmd": " ".join(cmd), "timeout": rc == -9}
    m = re.search(r"(\d+) states generated, (\d+) distinct states found, (\d+) states left", out)
    res["generated"] = int(m.group(1)) if m else 0
    res["distinct"] = int(m.group(2)) if m else 0
    res["left"] = int(m.group(3)) if m else -1
    m = re.search(r"depth of the complete state graph search is (\d+)", out)
    res["depth"] = int(m.group(1)) if m else 0
    err = None
    if "Error:" in out or "Exception" in out and "No error has been found" not in out:
        i = out.find("Error:")
        err = out[i:i + 3000] if i >= 0 else out[-3000:]
    res["error"] = err
    res["ok"] = ("No error has been found" in out) and rc == 0
    return res


def marked(res):
    return tlaval.find_marked(res["stdout"])


def invariant_violated(res):
    """Name of the violated invariant / property, or None."""
    m = re.search(r"Invariant (\S+) is violated", res["stdout"])
    if m:
        return m.group(1)
    m = re.search(r"Action property (\S+) is violated|Temporal properties were violated",
                  res["stdout"])
    if m:
        return m.group(1) or "temporal"
    return None


def counterexample(res):
    """The error trace TLC printed, as a list of (header, {var: value}) - best effort."""
    out = []
    blocks = re.split(r"\nState (\d+): ", res["stdout"])
    for i in range(1, len(blocks) - 1, 2):
        body = blocks[i + 1]
        head, _, rest = body.partition("\n")
        rest = rest.split("\n\n")[0]
        out.append((head.strip(), rest.strip()))
    return out
