"""C18: actions are well-formed value objects.
(a) C18.shape on every action of the trace box (TraceExec);
(b) ActionPairs: TLC prints a universe of actions, the harness constructs every action
    and every ordered pair in the real library and logs ==, !=, repr round trip,
    len / iteration / membership; TLC judges the log (ActionPairs.tla)."""
import json
import os
import sys

from . import common, eprops, framework as fw, tlc
from .common import BIG, BIGQ, MAXSIZE


def dec(v):
    if v >= BIG:
        q, r = divmod(v - BIG, BIGQ)
        return q * MAXSIZE + r
    return v


def code(fn):
    try:
        v = fn()
    except Exception:
        return 4
    return common.flag(v)


def construct(cs, r):
    from checkpoint_schedules import (Forward, Reverse, Copy, Move, EndForward, EndReverse,
                                      StorageType)
    st = {0: StorageType.RAM, 1: StorageType.DISK, 2: StorageType.WORK, 3: StorageType.NONE}
    k = r["k"]
    if k == 0:
        return Forward(dec(r["a"]), dec(r["b"]), r["wi"], r["wd"], st[r["s"]])
    if k == 1:
        return Reverse(dec(r["a"]), dec(r["b"]), r["wi"])
    if k == 2:
        return Copy(dec(r["a"]), st[r["s"]], st[r["t"]])
    if k == 3:
        return Move(dec(r["a"]), st[r["s"]], st[r["t"]])
    return EndForward() if k == 4 else EndReverse()


def probe(cs, universe):
    import checkpoint_schedules as pkg
    from checkpoint_schedules import StorageType
    import numpy
    ns = {"sys": sys, "numpy": numpy, "StorageType": StorageType}
    for name in ("Forward", "Reverse", "Copy", "Move", "EndForward", "EndReverse"):
        ns[name] = getattr(pkg, name)
    objs = [construct(cs, r) for r in universe]
    acts = []
    for r, o in zip(universe, objs):
        d = dict(r)

        def rr(o=o):
            x = eval(repr(o), dict(ns))
            return type(x) is type(o) and x.args == o.args
        d["rr"] = code(rr)
        d["ln"] = -1
        d["it"] = [-1]
        d["it2"] = [-1]
        d["mem"] = []
        if r["k"] in (0, 1):
            lo, hi = min(r["a"], r["b"]), max(r["a"], r["b"])
            try:
                d["ln"] = common.enc(len(o)) if (hi < BIG or lo == 0) else (hi - lo)
            except Exception:
                d["ln"] = -2
            d["it2"] = [-1]
            if hi < BIG:
                try:
                    d["it"] = [common.enc(x) for x in o]
                except Exception:
                    d["it"] = [-2]
                try:
                    d["it2"] = [common.enc(x) for x in o]       # a second traversal of the same object
                except Exception:
                    d["it2"] = [-2]
            for m in sorted({lo - 1, lo, lo + 1, hi - 1, hi, hi + 1, 0, 7}):
                if m < 0 or (hi >= BIG and m == hi - 1):    # sys.maxsize - 1 has no embedding
                    continue
                d["mem"].append([m, code(lambda m=m: dec(m) in o)])
                if m < BIG:          # the same step as a numpy integer (seed R8-C17-b: an isinstance(step, int) guard)
                    d["mem"].append([m, code(lambda m=m: numpy.int64(m) in o)])
                    d["mem"].append([m, code(lambda m=m: numpy.int32(m) in o)])
        acts.append(d)
    eq = [[code(lambda a=a, b=b: a == b) for b in objs] for a in objs]
    ne = [[code(lambda a=a, b=b: a != b) for b in objs] for a in objs]
    return {"acts": acts, "eq": eq, "ne": ne}


def check(ctx):
    from . import record
    cs = record.lib()
    # (a) shape of every emitted action
    res = eprops.ebox_result(ctx)
    viols = eprops.violations_of("C18", res["traces"], res["verdicts"])
    # (b) value-object laws on TLC's universe
    g = tlc.run("ActionPairsGen", workers=1, timeout=120)
    ctx.add_run("ActionPairsGen", g)
    uni = tlc.marked(g)
    if not uni:
        raise fw.Machinery("ActionPairsGen printed no universe: " + (g["error"] or ""))
    universe = uni[0][0]
    results = probe(cs, universe)
    path = os.path.join(ctx.dir, "pairs.json")
    json.dump(results, open(path, "w"), separators=(",", ":"))
    r = tlc.run("ActionPairs", env={"RESULT_FILE": path}, timeout=600)
    ctx.add_run("ActionPairs", r)
    n = len(universe)
    if not r["ok"] or r["distinct"] != n * n:
        raise fw.Machinery(f"ActionPairs: ok={r['ok']} distinct={r['distinct']} expected {n*n}: "
                           f"{r['error']}")
    pair_fail = {}
    for i, j, cl in tlc.marked(r):
        for c in cl:
            if c.startswith("BIND"):
                raise fw.Machinery("ActionPairs BIND.universe failed")
            pair_fail.setdefault(c, []).append((i, j))
    for c, lst in sorted(pair_fail.items()):
        i, j = lst[0]
        a, b = universe[i - 1], universe[j - 1]
        objs = (construct(cs, a), construct(cs, b))
        viols.append({"property": "C18", "clause": c.rsplit(".", 1)[0] if c.count(".") > 1 else c,
                      "cls": "actions",
                      "what": (f"{objs[0]!r} vs {objs[1]!r}" if c in ("C18.eq", "C18.ne")
                               else f"{objs[0]!r}") + f" ({len(lst)} cases)",
                      "p": {}, "trace": {"pair": [a, b], "cases": len(lst)}})
    actions = sum(1 for t in res["traces"] for e in t["ev"] if e[0] == 0 and e[1] == 0)
    cov = {
        "traces_validated_against_impl": len(res["traces"]),
        "emitted_actions_shape_checked": actions,
        "universe_actions": n, "ordered_pairs": n * n,
        "clauses": ["C18.shape", "C18.eq", "C18.ne", "C18.repr_roundtrip", "C18.steps.len",
                    "C18.steps.iter", "C18.steps.contains"],
        "samples": [{"action": repr(construct(cs, universe[0]))},
                    {"action": repr(construct(cs, universe[-1]))}]
                   + eprops.sample_traces(res["traces"], 2),
        "exhaustive": True,
        "rule": "universe printed by TLC (ActionUniverse.tla); every ordered pair constructed in the "
                "real library; oracle = record equality / StepsOf in the specification",
    }
    return viols, cov, ["repr round trips are evaluated in a namespace with sys, numpy and the "
                        "package's public action names"]
