"""C17: valid parameters always yield a schedule; invalid ones fail before any action.
TLC prints the boundary box (Domain.tla); every tuple is constructed and driven in the real
library under a watchdog; TLC validates the resulting traces (TraceDomain.tla) and judges
them against the zone of their parameters."""
from collections import Counter

from . import framework as fw, record, tlc

PASSES = {"SingleMemory": 2, "SingleDiskCopy": 2, "TwoLevel": 2, "SingleDiskMove": 1, "None": 0}


def gen_box(ctx, nmax):
    g = tlc.run("DomainGen", workers=1, timeout=300, env={"DOMAIN_NMAX": str(nmax)})
    ctx.add_run("DomainGen", g)
    m = tlc.marked(g)
    if not m:
        raise fw.Machinery("DomainGen printed nothing: " + str(g["error"]))
    cfgs = []
    for cls, n, p in m[0][0]:
        cfgs.append({"cls": cls, "p": p, "N": n, "passes": PASSES.get(cls, 1), "watchdog": 20})
    cfgs.sort(key=lambda c: (c["cls"], c["N"], sorted(c["p"].items())))
    return cfgs


def check(ctx):
    nmax = 6 if ctx.tier == "quick" else 9
    cfgs = gen_box(ctx, nmax)
    # "every parameter tuple in the documented domain yields a complete stream": besides the boundary
    # box, every configuration of the shared trace box (all of them in the valid zone, or rejected
    # and then judged as such) is driven to the end and judged by the same specification
    from . import boxes
    cfgs += [c for c in boxes.ebox(ctx.tier, ctx.seed) if "calls" not in c]
    # valid tuples given as numpy integers
    from .record import mkcfg
    for n in (1, 3, 6, 10, 15):
        for c in (mkcfg("Multistage", max_n=n, ram=1, disk=2), mkcfg("Mixed", max_n=n, ram=3, st=1),
                  mkcfg("Revolve", max_n=n, ram=2), mkcfg("Revolve", max_n=n, ram=4), mkcfg("DiskRevolve", max_n=n, ram=2),
                  mkcfg("PeriodicDiskRevolve", max_n=n, ram=3), mkcfg("HRevolve", max_n=n, ram=2, disk=1),
                  mkcfg("TwoLevel", N=n, passes=2, period=3, ram=1, st=0)):
            c["npargs"] = 1
            cfgs.append(c)
    traces = record.record_many(cfgs)
    # cold-start giants: valid tuples with many steps, each constructed and asked for its first
    # actions in a FRESH interpreter (nothing memoised, full recursion depth)
    import json as _json
    import os as _os
    import subprocess as _sp
    import sys as _sys
    from .common import VERIF as _V
    giants = [mkcfg("Mixed", max_n=700, ram=3, st=1), mkcfg("Mixed", max_n=520, ram=40, st=0),
              mkcfg("Multistage", max_n=1000, ram=0, disk=4), mkcfg("Multistage", max_n=600, ram=3, disk=3),
              mkcfg("TwoLevel", N=700, passes=1, period=70, ram=3, st=0), mkcfg("Revolve", max_n=300, ram=3),
              mkcfg("HRevolve", max_n=160, ram=2, disk=2), mkcfg("DiskRevolve", max_n=250, ram=2),
              mkcfg("PeriodicDiskRevolve", max_n=400, ram=2)]
    procs = []
    for g in giants:
        g["prefix"] = 12
        g["watchdog"] = 100
        procs.append(_sp.Popen([_sys.executable, "-m", "harness.c17", _json.dumps(g)], cwd=_V,
                               env=dict(_os.environ, PYTHONHASHSEED="0"), stdout=_sp.PIPE, stderr=_sp.PIPE, text=True))
    for pr in procs:
        o, e = pr.communicate(timeout=900)
        if pr.returncode != 0:
            raise fw.Machinery("cold-start giant run failed: " + e[-600:])
        traces.append(_json.loads(o))
    verdicts = fw.validate(ctx, traces, module="TraceDomain")
    viols = []
    zones = Counter()
    for t, v in zip(traces, verdicts):
        zones[(t["cls"], v["extra"][0])] += 1
        for clause, pos, later in v["viol"]:
            if clause.startswith("C17."):
                how = ("hung" if t["hung"] else f"ctor={t['ctor']}" if t["ctor"] else
                       f"{len(t['ev'])} events")
                viols.append({"property": "C17", "clause": clause, "cls": t["cls"], "p": t["p"],
                              "N": t["N"], "what": f"{fw.describe(t)} [{how}]",
                              "trace": {k: t[k] for k in ("cls", "p", "N", "passes", "ev", "ctor", "hung")}})
    cov = {
        "traces_validated_against_impl": len(traces),
        "tuples_per_class_and_zone": {f"{c}/{z}": n for (c, z), n in sorted(zones.items())},
        "box": f"n in 0..{nmax}, unit counts 0..n+2, all four storages, period 0..4, b 0..3, 2 cost vectors; "
               "plus every configuration of the shared trace box (harness/boxes.py:ebox)",
        "samples": [{"config": fw.describe(t), "zone": v["extra"][0], "ctor": t["ctor"],
                     "events": len(t["ev"])} for t, v in list(zip(traces, verdicts))[:: max(1, len(traces) // 6)]],
        "exhaustive": True,
        "rule": "Domain.tla enumerates the box and assigns the zone; 'valid' must complete, 'invalid' "
                "must raise at construction or first next() without emitting an action",
    }
    return viols, cov, ["unspecified zone (not judged): negative unit counts, zero/negative costs, "
                        "Revolve-family max_n = 1 with no RAM unit"]


if __name__ == "__main__":
    import json
    import sys
    from .common import VERIF
    sys.path.insert(0, VERIF)
    print(json.dumps(record._work(json.loads(sys.argv[1]))))
