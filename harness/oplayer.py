"""The operation layer as a whole (diagnostic tier of C01/C07 - never a VIOLATION by itself):

  * design level: OpRefines - the conversion of operations into actions is a refinement mapping from
    OpMachine to Executor (TLC, every accepted operation program of <= N-1 steps), with a negative
    control and reachability;
  * code -> spec: the sequences returned by the five public functions of hrevolve_sequences, and
    the private operation lists of the Revolve-family classes together with the streams made of them,
    validated by TraceOps (OP.* clauses: executable on the operation machine, capacities with
    release-at-last-read, makespan attribute = sum of operation costs, storage attributes = writes;
    CONV.* clauses: the stream is the image of the operation list).

Why diagnostic: the listed properties speak about the action streams, which TraceExec judges directly.
A failing OP./CONV. clause localises a stream-level violation (or shows a drift of the lower layer
that the stream-level properties tolerate); it is reported in the evidence file, not as a violation.
"""
from collections import Counter

from . import boxes, framework as fw, ops, tlc


def fn_box(tier):
    q = tier == "quick"
    lmax = 13 if q else 30
    costs = [c + (1,) for c in boxes.COSTS8] + [boxes.FRAC[1], boxes.FRAC[2]]
    if not q:
        costs = [c + (1,) for c in boxes.COSTS12] + list(boxes.FRAC)
    out = []
    for l in range(0, lmax + 1):
        for cm in (1, 2, 3, 4) if q else (1, 2, 3, 4, 6):
            if not q and l > 20 and cm > 3:
                continue
            for c in costs:
                uf, ub, wd, rd, sc = c
                for fn in ("revolve", "disk_revolve", "periodic_disk_revolve"):
                    out.append({"fn": fn, "l": l, "cm": cm, "costs": c})
                if l <= 8:
                    out.append({"fn": "revolve_1d", "l": l, "cm": cm, "costs": c})
                    out.append({"fn": "revolve_1d", "l": l, "cm": cm, "costs": c, "one_read": False})
                for cd in (0, 1, 2, 3) if q else (0, 1, 2, 3, 5):
                    out.append({"fn": "hrevolve", "l": l, "cvect": (cm, cd), "costs": (uf, ub, (0, wd), (0, rd), sc)})
                if cm <= 2 and l <= (10 if q else 18):
                    # three levels, and a level 0 that is not free - beyond what the classes use
                    out.append({"fn": "hrevolve", "l": l, "cvect": (cm, 1, 2),
                                "costs": (uf, ub, (0, wd, 2 * wd + 1), (0, rd, 3 * rd + 1), sc)})
                    out.append({"fn": "hrevolve", "l": l, "cvect": (cm, 2),
                                "costs": (uf, ub, (1, wd + 2), (1, rd + 2), sc)})
    return out


def class_box(tier):
    q = tier == "quick"
    nmax = 14 if q else 32
    costs = [c + (1,) for c in boxes.COSTS8] + [boxes.FRAC[1]]
    out = []
    for n in range(1, nmax + 1):
        for ram in (1, 2, 3):
            for c in costs:
                for cls in ("Revolve", "DiskRevolve", "PeriodicDiskRevolve"):
                    out.append({"cls": cls, "max_n": n, "ram": ram, "costs": c})
                for d in (0, 1, 2, 3):
                    out.append({"cls": "HRevolve", "max_n": n, "ram": ram, "disk": d, "costs": c})
    return out


def _rec_fn(c):
    return ops.record_fn(c)


def _rec_cls(c):
    return ops.record_class(c)


def _pmap(f, cfgs):
    import multiprocessing as mp
    from . import record
    record.lib()
    with mp.get_context("fork").Pool(16) as pool:
        return pool.map(f, cfgs, chunksize=max(1, len(cfgs) // 128))


def design(ctx):
    cfgs = ["OpRefines.cfg", "OpRefines411.cfg", "OpRefines421.cfg"]
    if ctx.tier != "quick":
        cfgs += ["OpRefines512.cfg"]      # OpRefines522.cfg (13 M states, 20 min) is kept for manual runs
    out = []
    for cfg in cfgs:
        r = tlc.run("OpRefines", cfg=cfg, timeout=1800, workers=16)
        ctx.add_run("OpRefines/" + cfg, r)
        if r["timeout"]:
            out.append({"cfg": cfg, "timeout": True, "states": r["distinct"]})
            continue
        if not r["ok"]:
            raise fw.Machinery(f"the conversion is not a refinement OpMachine => Executor ({cfg}): "
                               f"{tlc.invariant_violated(r)} {(r['error'] or '')[:600]}")
        out.append({"cfg": cfg, "states": r["distinct"], "refines": True})
    for cfg in ("OpRefinesNeg.cfg", "OpRefinesReach.cfg", "OpRefinesReachDisk.cfg"):
        r = tlc.run("OpRefines", cfg=cfg, timeout=600, workers=8)
        ctx.add_run("OpRefines/" + cfg, r)
        if tlc.invariant_violated(r) is None:
            raise fw.Machinery(f"vacuity: {cfg} was expected to be violated")
        out.append({"cfg": cfg, "violated_as_expected": True})
    return out


def opopt(ctx):
    """OpOpt: exhaustive cost-bounded search at the operation layer below the makespan hrevolve()
    claims - two and three levels, free and costly level 0.  Diagnostic."""
    import json
    import os
    from . import record
    record.lib()
    from checkpoint_schedules import hrevolve_sequences as hs
    lmax = 3 if ctx.tier == "quick" else 5
    insts = []
    for l in range(1, lmax + 1):
        for cv in ((1, 1, 1), (1, 0, 1), (2, 1, 1), (1, 2, 1), (1, 1), (2, 1)):
            for (uf, ub, w, r) in ((1, 1, (0, 1, 3), (0, 1, 3)), (1, 1, (1, 2, 2), (1, 1, 4)),
                                   (2, 1, (0, 0, 1), (0, 3, 1)), (1, 2, (0, 2, 5), (0, 2, 0))):
                K = len(cv)
                try:
                    seq = hs.hrevolve(l, cv, list(w[:K]), list(r[:K]), uf, ub)
                    mk = seq.makespan
                except Exception:
                    continue
                if mk != int(mk):
                    continue
                insts.append({"l": l, "K": K, "cap": list(cv), "w": list(w[:K]), "r": list(r[:K]), "uf": uf, "ub": ub,
                              "claim": int(mk)})
    if not insts:
        return {"instances": 0}
    neg = dict(insts[min(5, len(insts) - 1)])
    neg["claim"] += 1
    insts.append(neg)                         # negative control: the library's own sequence is cheaper than this
    path = os.path.join(ctx.dir, "opopt.json")
    with open(path, "w") as f:
        json.dump(insts, f)
    r = tlc.run("OpOpt", env={"INST_FILE": path}, workers=16, timeout=3000)
    ctx.add_run("OpOpt", r)
    os.remove(path)
    if not r["ok"]:
        raise fw.Machinery(f"OpOpt failed: {(r['error'] or r['stdout'][-500:])[:500]}")
    best = {}
    for v in tlc.marked(r):
        best[v[0]] = min(best.get(v[0], 10 ** 9), v[1])
    if len(insts) not in best:
        raise fw.Machinery("vacuity: OpOpt did not find the program of its negative control")
    cheaper = [dict(insts[i - 1], found=t) for i, t in sorted(best.items()) if i != len(insts)]
    return {"instances": len(insts) - 1, "lmax": lmax, "states": r["distinct"],
            "free_level0_cheaper_than_claimed": [c for c in cheaper if c["w"][0] == 0 and c["r"][0] == 0],
            "costly_level0_cheaper_than_claimed": [c for c in cheaper if not (c["w"][0] == 0 and c["r"][0] == 0)],
            "negative_control_found": True}


def run(ctx, with_design=True):
    fcfgs, ccfgs = fn_box(ctx.tier), class_box(ctx.tier)
    traces = _pmap(_rec_fn, fcfgs) + _pmap(_rec_cls, ccfgs)
    raised = Counter((t["cls"], t["raised"].split(":")[0]) for t in traces if "raised" in t)
    raised_ex = {}
    for t in traces:
        if "raised" in t:
            raised_ex.setdefault(t["cls"], {"cfg": t["cfg"], "raised": t["raised"]})
    live = [t for t in traces if "raised" not in t]
    verdicts = fw.validate(ctx, live, module="TraceOps", tag="ops")
    failing, examples = Counter(), {}
    for t, v in zip(live, verdicts):
        for c, pos, _ in v["viol"]:
            failing[(t["cls"], c)] += 1
            examples.setdefault(f"{t['cls']} {c}", {"cfg": t["cfg"], "position": pos})
    out = {
        "what": "operation layer: OpMachine/TraceOps (code -> spec) and OpRefines (design level)",
        "function_sequences": sum(1 for t in live if t["cls"].startswith("ops:")),
        "class_operation_lists_with_streams": sum(1 for t in live if t["cls"].startswith("conv:")),
        "operations_validated": sum(len(t["ev"]) for t in live),
        "per_function": dict(Counter(t["cls"] for t in live)),
        "calls_that_raised": {f"{k[0]} {k[1]}": n for k, n in raised.items()},
        "raised_examples": raised_ex,
        "failing_clauses": {f"{k[0]} {k[1]}": n for k, n in failing.items()},
        "failing_examples": examples,
        "status": "diagnostic only: reported here, never as a VIOLATION",
    }
    if with_design:
        out["design_level"] = design(ctx)
        from . import opreplay
        out["replay_into_converter"] = opreplay.run(ctx)
        out["operation_level_optimum"] = opopt(ctx)
    return out
