"""spec -> code for the operation layer: TLC enumerates EVERY complete operation program that
OpMachine accepts within a cost bound (OpRefinesProgs*.cfg: the programs are carried in a history
variable and printed when the Executor image is done); each program is turned into Operation
objects and fed to the REAL converter RevolveCheckpointSchedule._iterator.  The stream it emits is
(1) validated by TraceExec like any other stream (every clause of C01-C04, C08, C09, C11, C12, C18) and
(2) compared with the image under Conv (TraceOps, CONV.*).

Diagnostic (evidence of C01, operation_layer.replay): the classes never feed the converter anything
but their own generated sequences, which the stream-level checks cover directly."""
from collections import Counter

from . import framework as fw, ops, record, tlc
from .record import mkcfg


def programs(ctx, cfg):
    r = tlc.run("OpRefines", cfg=cfg, timeout=1800, workers=12)
    ctx.add_run("OpRefines/" + cfg, r)
    if not r["ok"]:
        raise fw.Machinery(f"program generator {cfg}: {tlc.invariant_violated(r)} {(r['error'] or '')[:500]}")
    out = []
    for v in tlc.marked(r):
        n, lr, ld, prog = v[0], v[1], v[2], v[3]
        out.append((n, lr, ld, [list(o) for o in prog]))
    if not out:
        raise fw.Machinery(f"vacuity: {cfg} produced no complete program")
    return out, r["distinct"]


def _conv_trace(item):
    n, lr, ld, prog = item
    record.lib()
    cfg = mkcfg("HRevolve", max_n=n, ram=lr, disk=ld, uf=1, ub=1, wd=1, rd=1)
    cfg["rawops"] = [o[:4] for o in prog]
    t = {"cls": "replay", "cfg": {"N": n, "ram": lr, "disk": ld, "ops": len(prog)}, "hasacts": 1}
    acts = []
    try:
        obj = record.build(cfg)
        for a in obj:
            acts.append(ops.enc_act(a))
            if len(acts) > 20 * len(prog) + 50:
                break
        t["acts"] = acts
    except Exception as ex:
        t["raised"] = f"{type(ex).__name__}: {ex}"[:200]
        t["acts"] = acts
    t["ev"] = [o[:4] for o in prog] + [[ops.OEND, 0, 0, 0]]
    t["p"] = ops.params("replay", n - 1, (lr, ld), (0, 1), (0, 1), 1, 1, 1, -1, [[-1], [-1]])
    return t, cfg


def run(ctx):
    cfgs = ["OpRefinesProgs.cfg"] if ctx.tier == "quick" else ["OpRefinesProgs.cfg", "OpRefinesProgs411.cfg",
                                                               "OpRefinesProgs321.cfg"]
    out = {"what": "every complete accepted operation program within the cost bound -> the real converter",
           "generators": []}
    items = []
    for c in cfgs:
        ps, states = programs(ctx, c)
        out["generators"].append({"cfg": c, "programs": len(ps), "states": states})
        items += ps
    pairs = [_conv_trace(it) for it in items]
    conv = [t for t, _ in pairs]
    raised = Counter(t["raised"].split(":")[0] for t in conv if "raised" in t)
    verdicts = fw.validate(ctx, conv, module="TraceOps", tag="rep")
    failing = Counter()
    examples = {}
    for t, v in zip(conv, verdicts):
        for c, pos, _ in v["viol"]:
            failing[c] += 1
            examples.setdefault(c, {"cfg": t["cfg"], "position": pos, "ops": t["ev"][:40]})
    streams = record.record_many([c for _, c in pairs])
    sv = fw.validate(ctx, streams, tag="reps")
    sfail = Counter()
    for t, v in zip(streams, sv):
        for c, pos, _ in v["viol"]:
            sfail[c] += 1
            examples.setdefault(c, {"cfg": {k: t["p"][k] for k in ("max_n", "ram", "disk")}, "position": pos,
                                    "ops": t.get("rawops", [])[:40]})
    out.update({"programs_replayed": len(items), "converter_raised": dict(raised),
                "failing_conv_clauses": dict(failing), "failing_stream_clauses": dict(sfail),
                "examples": examples, "status": "diagnostic only"})
    return out
