"""Property id -> check function; replay of a recorded violation."""
import json

from . import eprops, framework as fw, record, c18, c17, optim, c10, classprops, c16, c15

CHECKS = {}
for _p in ("C01", "C02", "C03", "C04", "C08", "C09", "C11", "C12"):
    CHECKS[_p] = eprops.check
CHECKS["C18"] = c18.check
CHECKS["C17"] = c17.check
CHECKS["C05"] = optim.check_c05
CHECKS["C06"] = optim.check_c06
CHECKS["C07"] = optim.check_c07
CHECKS["C10"] = c10.check
CHECKS["C13"] = classprops.check_c13
CHECKS["C14"] = classprops.check_c14
CHECKS["C19"] = classprops.check_c19
CHECKS["C16"] = c16.check
CHECKS["C15"] = c15.check
CHECKS["C09"] = c10.check_c09


for _p in ("C08", "C11"):
    CHECKS[_p] = c10.with_client(eprops.check)
CHECKS["C18"] = c10.with_client(c18.check)


def replay(ctx, path):
    """Re-examine a recorded violation against the CURRENT tree.  A violation that carries a
    single-object trace is re-recorded and validated alone (with the trace specification of its
    property); anything else (optimality claims, action pairs, planner tables, sibling streams)
    re-runs the property's check and looks for the same clause."""
    d = json.load(open(path))
    v = d["smallest"]
    t = v.get("trace", {})
    pid = d.get("property", ctx.pid)
    module = {"C13": "TraceTwoLevel", "C19": "TracePeriodic", "C17": "TraceDomain"}.get(pid, "TraceExec")
    single = "cls" in t and "p" in t and "ev" in t and pid not in ("C14", "C15", "C16") \
        and not d["clause"].endswith(("stream_unchanged", ".optimal", ".table"))
    if single:
        cfg = {"cls": t["cls"], "p": t["p"], "N": t["N"], "passes": t.get("passes", 1)}
        if "calls" in t:
            cfg["calls"] = [tuple(c) for c in t["calls"]]
        tr = record._work(cfg)
        verdicts = fw.validate(ctx, [tr], module=module)
        hits = [x for x in verdicts[0]["viol"] if x[0] == d["clause"]]
        print(json.dumps({"config": fw.describe(tr), "clause": d["clause"], "reproduced": bool(hits),
                          "all_failing_clauses": verdicts[0]["viol"]}, indent=1))
        if hits:
            print(f"VIOLATION property={pid} replay={path}")
            return 1
        return 0
    viols, coverage, assumptions = CHECKS[pid](ctx)
    hits = [x for x in viols if x["clause"] == d["clause"]]
    print(json.dumps({"clause": d["clause"], "reproduced": bool(hits), "cases": len(hits),
                      "first": hits[0]["what"] if hits else None}, indent=1))
    if hits:
        print(f"VIOLATION property={pid} replay={path}")
        return 1
    return 0
