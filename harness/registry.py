"""Property id -> check function; replay of a recorded violation."""
import json

from . import eprops, framework as fw, record, c18, c17, optim, c10, classprops, c16, c15

CHECKS = {}
for _p in ("C01", "C02", "C03", "C04", "C08", "C09", "C11", "C12"):
    CHECKS[_p] = eprops.check
CHECKS["C18"] = c18.check
CHECKS["C17"] = c17.check
CHECKS["C05"] = optim.check_c05
CHECKS["C06"] = optim.check_c06
CHECKS["C07"] = optim.check_c07
CHECKS["C10"] = c10.check
CHECKS["C13"] = classprops.check_c13
CHECKS["C14"] = classprops.check_c14
CHECKS["C19"] = classprops.check_c19
CHECKS["C16"] = c16.check
CHECKS["C15"] = c15.check
CHECKS["C09"] = c10.check_c09


for _p in ("C08", "C11"):
    CHECKS[_p] = c10.with_client(eprops.check)
CHECKS["C18"] = c10.with_client(c18.check)


def replay(ctx, path):
    """Re-record the configuration of a replay file from the CURRENT tree and validate it alone."""
    d = json.load(open(path))
    v = d["smallest"]
    t = v["trace"]
    cfg = {"cls": t["cls"], "p": t["p"], "N": t["N"], "passes": t.get("passes", 1)}
    if "calls" in t:
        cfg["calls"] = t["calls"]
    tr = record._work(cfg)
    verdicts = fw.validate(ctx, [tr])
    hits = [x for x in verdicts[0]["viol"] if x[0] == d["clause"]]
    print(json.dumps({"config": fw.describe(tr), "clause": d["clause"], "reproduced": bool(hits),
                      "all_failing_clauses": verdicts[0]["viol"]}, indent=1))
    if hits:
        print(f"VIOLATION property={ctx.pid} replay={path}")
        return 1
    return 0
