"""C05 / C06 / C07: optimality over ALL executable schedules.

Link 1  ExecOpt.tla: TLC explores every behaviour of the executor machine that could
        still finish below the cost the implementation achieved (claims come from traces
        validated against the full Executor); a cheaper completed behaviour is a violation
        and TLC's counterexample is the witness.
Link 2  OptTables.tla: closed form / recurrences, built row by row, must equal both the
        implementation's values on a larger box and the searched optimum.
"""
import json
import os
from collections import defaultdict

from . import common, boxes, framework as fw, record, tlc
from .record import mkcfg

EXEC_CLAUSES = ("C01.", "C02.", "C03.", "C12.")


def executable(v):
    """A trace's totals are a valid claim only if the stream was executable within budget."""
    return not any(c.startswith(EXEC_CLAUSES) for c, _, _ in v["viol"])


def search(ctx, insts, timeout=3000, heap="24g"):
    """Run the exhaustive cost-bounded search.  Returns {instance index: cheapest cost found
    below the claim}."""
    if not insts:
        return {}
    path = os.path.join(ctx.dir, "inst.json")
    json.dump([dict(x, idx=k) for k, x in enumerate(insts, start=1)], open(path, "w"))
    r = tlc.run("ExecOpt", env={"INST_FILE": path}, timeout=timeout, heap=heap)
    ctx.add_run("ExecOpt", r)
    if r["timeout"] or not r["ok"]:
        raise fw.Machinery(f"ExecOpt search failed: timeout={r['timeout']} {r['error']}")
    best = {}
    for i, cost in tlc.marked(r):
        if i not in best or cost < best[i]:
            best[i] = cost
    return best


def witness(ctx, inst):
    """TLC counterexample: a complete behaviour of the executor cheaper than the claim."""
    path = os.path.join(ctx.dir, "inst1.json")
    json.dump([dict(inst, idx=1)], open(path, "w"))
    r = tlc.run("ExecOpt", cfg="ExecOptWitness.cfg", env={"INST_FILE": path}, timeout=600,
                workers=4)
    ctx.add_run("ExecOpt(witness)", r)
    steps = []
    for head, body in tlc.counterexample(r):
        steps.append({"step": head, "state": " ".join(body.split())})
    # the witness, as an action stream, judged by the full Executor specification
    from . import witness as wmod
    try:
        checked = wmod.validate(ctx, inst, steps)
    except Exception as e:          # an aid only: the verdict (a cost comparison) does not depend on it
        checked = {"witness_stream": None, "note": f"witness could not be re-validated: {e!r}"[:300]}
    return {"tlc_counterexample": steps, **checked}


def tables(ctx, claims, nmax, smax=None):
    """Check claims against OptTables.  Returns indices (0-based) of claims that differ."""
    path = os.path.join(ctx.dir, "claims.json")
    json.dump(claims, open(path, "w"))
    r = tlc.run("OptTables", env={"CLAIMS_FILE": path, "OPT_NMAX": str(nmax),
                                  "OPT_SMAX": str(nmax if smax is None else smax)}, timeout=1200,
                workers=1)
    ctx.add_run("OptTables", r)
    inv = tlc.invariant_violated(r)
    if inv:
        raise fw.Machinery(f"OptTables invariant {inv} violated: my transcription of the "
                           "closed form and the recurrence disagree")
    if not r["ok"]:
        raise fw.Machinery(f"OptTables failed: {r['error']}")
    m = tlc.marked(r)
    if not m:
        raise fw.Machinery("OptTables printed no verdict")
    return [x - 1 for x in m[0][0]]


def units(t):
    """Total number of checkpoint units s of a binomial configuration (clamped to n-1)."""
    p = t["p"]
    n = p["max_n"]
    if t["cls"] == "Multistage":
        s = min(p["ram"], n - 1) + min(p["disk"], n - 1)
    else:
        s = p["ram"]
    return min(s, n - 1)


def helper_values(fn_name, nmax):
    cs = record.lib()
    try:
        if fn_name == "bin":
            from checkpoint_schedules import optimal_steps_binomial as fn      # public helper (C05)
        else:
            from checkpoint_schedules.mixed import optimal_steps_mixed as fn   # internal: optional
    except ImportError:
        if fn_name == "bin":
            raise fw.Machinery("the public helper optimal_steps_binomial cannot be imported")
        return []
    out = []
    for n in range(1, nmax + 1):
        for s in range(1 if n > 1 else 0, n + 2):
            try:
                v = int(common.timed('helper:' + fn_name, lambda: fn(n, s), 10))
            except Exception:
                v = -1
            out.append({"kind": fn_name, "n": n, "s": s, "v": v, "src": f"helper({n},{s})"})
    return out


def _steps_check(ctx, pid, kind, cfgs, search_n, table_n, helper_n, deps, dense_n=None):
    dense_n = dense_n or table_n
    from . import design
    soundness = design.refines(ctx, kind)
    traces = record.record_many(cfgs)
    verdicts = fw.validate(ctx, traces)
    fw.bind_totals(traces, verdicts)
    viols = []
    claims = []
    skipped = 0
    by_problem = defaultdict(list)
    for t, v in zip(traces, verdicts):
        if t["ctor"]:
            continue
        if not executable(v) or v["phase"] != "done":
            skipped += 1
            continue
        n, s = t["p"]["max_n"], units(t)
        nF = v["cnt"]["nF"]
        claims.append({"kind": kind, "n": n, "s": max(s, 0), "v": nF, "src": fw.describe(t)})
        by_problem[(n, s)].append((nF, t))
    helpers = helper_values(kind, helper_n)
    for h in helpers:
        n, s = h["n"], min(h["s"], h["n"] - 1)
        by_problem[(n, s)].append((h["v"], {"cls": "helper", "p": {}, "N": n, "what": h["src"]}))
    # link 1: exhaustive search below the cheapest STREAM (a helper's return value is not a schedule:
    # it bounds nothing, it is only compared with the optimum afterwards)
    insts, keys = [], []
    for (n, s), lst in sorted(by_problem.items()):
        streams = [x for x, t in lst if t["cls"] != "helper"]
        if 2 <= n <= search_n and s >= 1 and streams:
            insts.append({"n": n, "cm": s, "cd": 0, "uf": 1, "wd": 0, "rd": 0, "deps": deps,
                          "oneread": 0, "claim": min(streams)})
            keys.append((n, s))
    best = search(ctx, insts)
    optimum = {}
    for idx, key in enumerate(keys, start=1):
        optimum[key] = best.get(idx, insts[idx - 1]["claim"])
    for (n, s), lst in sorted(by_problem.items()):
        streams = [x for x, t in lst if t["cls"] != "helper"]
        ref = optimum.get((n, s), min(streams) if streams else None)
        if ref is None:
            continue            # only a helper value for this (n, s): judged by the tables below
        for val, t in lst:
            if val != ref:
                searched = (n, s) in optimum
                lazy = None
                if searched and (keys.index((n, s)) + 1) in best:
                    lazy = (lambda inst=insts[keys.index((n, s))]: {"witness": witness(ctx, inst)})
                viols.append({
                    "_lazy": lazy,
                    "property": pid, "clause": f"{pid}.optimal", "cls": t["cls"], "p": t["p"],
                    "N": n,
                    "what": f"{t.get('what') or fw.describe(t)}: {val} forward steps, "
                            + (f"exhaustive optimum {ref}" if searched else f"another implementation achieves {ref}"),
                    "trace": {"cls": t["cls"], "p": t["p"], "N": n, "passes": 1}})
    # link 2: closed form / recurrence on the large box, and on the searched optima
    claims += helpers
    for (n, s), o in optimum.items():
        claims.append({"kind": kind, "n": n, "s": s, "v": o, "src": f"ExecOpt optimum n={n} s={s}"})
    # dense box with every s; guided large-n claims in a second, s-limited table run
    dense = [i for i, c in enumerate(claims) if c["n"] <= dense_n]
    sparse = [i for i, c in enumerate(claims) if c["n"] > dense_n]
    bad = [dense[b] for b in tables(ctx, [{k: claims[i][k] for k in ("kind", "n", "s", "v")} for i in dense], dense_n)]
    if sparse:
        smax = max(min(claims[i]["s"], claims[i]["n"] - 1) for i in sparse)
        bad += [sparse[b] for b in tables(ctx, [{k: claims[i][k] for k in ("kind", "n", "s", "v")} for i in sparse],
                                          max(claims[i]["n"] for i in sparse), smax)]
    for b in bad:
        c = claims[b]
        is_opt = c["src"].startswith("ExecOpt")
        if is_opt:
            raise fw.Machinery(f"OptTables disagrees with the exhaustive optimum at {c}: "
                               "the transcription of the theorem is wrong")
        viols.append({"property": pid, "clause": f"{pid}.table", "cls": c["src"].split("(")[0],
                      "p": {}, "N": c["n"],
                      "what": f"{c['src']}: {c['v']} forward steps differs from the "
                              f"{'Griewank-Walther closed form' if kind == 'bin' else 'mixed recurrence'}"
                              f" for n={c['n']} s={c['s']}",
                      "trace": {"claim": c}})
    cov = {
        "traces_validated_against_impl": len(traces),
        "claims_from_streams": len(claims) - len(helpers) - len(optimum),
        "helper_values": len(helpers),
        "search_instances": len(insts), "search_box": f"all n <= {search_n}, all s <= n-1",
        "table_box": f"n <= {table_n}", "streams_skipped_not_executable": skipped,
        "search_space_soundness": soundness,
        "samples": [{"instance": insts[0]}, {"instance": insts[-1]},
                    {"claim": claims[0]}, {"claim": claims[len(claims) // 2]}] if insts else [claims[0]],
        "exhaustive": True,
        "rule": "ExecOpt explores every behaviour with cost + admissible remaining cost below the "
                "implementation's; OptTables compares every claim with the closed form/recurrence",
    }
    return viols, cov


def planner_scan(ctx, nmax, smax):
    """TLC-guided selection: every step size the binomial planner n_advance(n, s) chooses for
    n <= nmax, s <= smax, both trajectories, is checked against the Bellman equation of the
    binomial recurrence (OptTables, claims of kind "adv").  A step that fails it is not yet a
    violation - the configurations it points at are added to the trace box and decided there."""
    record.lib()
    try:
        from checkpoint_schedules.multistage import n_advance
    except Exception:
        return [], 0
    claims, meta = [], []
    for n in range(2, nmax + 1):
        for s in range(1, min(n - 1, smax) + 1):
            for traj, name in ((0, "maximum"), (1, "revolve")):
                try:
                    v = int(common.timed('n_advance', lambda: n_advance(n, s, trajectory=name), 5))
                except Exception:
                    v = -1
                claims.append({"kind": "adv", "n": n, "s": s, "v": v})
                meta.append((n, s, traj))
    bad = tables(ctx, claims, nmax, smax)
    return [meta[b] for b in bad], len(claims)


def check_c05(ctx):
    q = ctx.tier == "quick"
    sn, tn, hn = (10, 40, 60) if q else (14, 90, 150)
    cfgs = boxes.multistage(12 if q else 20)
    suspects, scanned = planner_scan(ctx, 200 if q else 500, 12)
    dense_n = max(tn, hn)
    for n, s, traj in sorted(suspects)[:16]:
        cfgs.append(mkcfg("Multistage", max_n=n, ram=0, disk=s, traj=traj))
    for n in range((13 if q else 21), tn + 1):
        for s in range(1, n):
            for t in (0, 1):
                cfgs.append(mkcfg("Multistage", max_n=n, ram=0, disk=s, traj=t))
    cfgs += boxes.revolve_family(14 if q else 30, (1, 2, 3, 4, 5), (boxes.COSTS8 if q else boxes.COSTS12) + boxes.FRAC,
                                 classes=("Revolve",))
    viols, cov = _steps_check(ctx, "C05", "bin", cfgs, sn, tn, hn, 0, dense_n=dense_n)
    cov["planner_entries_scanned"] = scanned
    cov["guided_configurations"] = min(len(suspects), 16)
    from . import design, classprops
    cov["design_level_generator_model"] = design.gen_binomial(ctx)
    cov["conformance_drift"] = classprops.gen_drift(ctx, 12 if q else 20)      # diagnostic, never a violation
    return viols, cov, ["beyond the exhaustively searched box the Griewank-Walther theorem is assumed: "
                        "the check there is 'implementation = closed form = recurrence'"]


def mixed_planner_scan(ctx, nmax, smax):
    """TLC-guided selection for Mixed: the cost component of every planner entry (n, s) with
    n <= nmax, s <= smax is compared with the mixed recurrence; entries that differ point at
    configurations that are then recorded and decided like any other."""
    record.lib()
    try:
        import checkpoint_schedules.mixed as mx
    except Exception:
        return [], 0
    claims, meta = [], []
    for n in range(2, nmax + 1):
        for s in range(1, min(n - 1, smax) + 1):
            for fn in ("mixed_step_memoization", "optimal_steps_mixed"):
                try:
                    v = common.timed('mixed:' + fn, lambda: getattr(mx, fn)(n, s), 20)
                    v = int(v[2]) if isinstance(v, tuple) else int(v)
                except Exception:
                    v = -1
                claims.append({"kind": "mix", "n": n, "s": s, "v": v})
                meta.append((n, s))
    bad = tables(ctx, claims, nmax, smax)
    return sorted({meta[b] for b in bad}), len(claims)


def check_c06(ctx):
    q = ctx.tier == "quick"
    sn, tn, hn = (11, 40, 60) if q else (15, 80, 120)
    cfgs = boxes.mixed(tn)
    suspects, scanned = mixed_planner_scan(ctx, 200 if q else 700, 20 if q else 40)
    dense_n = max(tn, hn)
    for n, s in suspects[:8]:
        cfgs.append(mkcfg("Mixed", max_n=n, ram=s, st=1))
    viols, cov = _steps_check(ctx, "C06", "mix", cfgs, sn, tn, hn, 1, dense_n=dense_n)
    cov["planner_entries_scanned"] = scanned
    cov["guided_configurations"] = min(len(suspects), 8)
    from . import design, classprops
    cov["design_level_generator_model"] = design.gen_mixed(ctx)
    cov["conformance_drift"] = classprops.gen_drift_mixed(ctx, 20 if q else 40)    # diagnostic, never a violation
    # "this number does not depend on the chosen storage"
    return viols, cov, ["beyond the exhaustively searched box the recurrence of Maddison (2024) is "
                        "assumed: the check there is 'implementation = recurrence'"]


def check_c07(ctx):
    q = ctx.tier == "quick"
    # expensive / lopsided disks: compared with the recurrences and the order relations only
    extra = [(1, 1, 5, 5), (1, 1, 6, 6), (1, 1, 10, 1), (1, 1, 15, 15), (2, 1, 9, 2)]
    # exact equalities between the costs (ties between the disk and the memory alternative of the
    # recurrences): wd + rd = uf, wd = rd = uf, and the same with fractions
    extra += [(2, 1, 1, 1), (3, 1, 1, 2), (2, 1, 2, 2), (10, 10, 5, 5, 10)]
    costs = ((boxes.COSTS8 + boxes.FRAC) if q else (boxes.COSTS12 + boxes.FRAC)) + extra
    # the search box shrinks for the vectors added later (one of wd/rd zero: n - 1; fractional: n - 3):
    # their finer cost granularity multiplies the distinct search states
    shrink = {c: (0 if c in boxes.COSTS6 else 99 if c in extra else 3 if len(c) > 4 else 1) for c in costs}
    if q:
        hbox = dict(nmax=8, cms=(1, 2), cds=(0, 1, 2))
        dn, rn = 9, 11
    else:
        hbox = dict(nmax=9, cms=(1, 2, 3), cds=(0, 1, 2, 3))
        dn, rn = 10, 12
    # search boxes
    cfgs = []
    for n in range(1, max(hbox["nmax"], dn, rn) + 1):
        for ci, c in enumerate(costs):
            for cm in (1, 2, 3):
                if n <= hbox["nmax"] - shrink[c] and cm in hbox["cms"]:
                    for cd in hbox["cds"]:
                        cfgs.append(mkcfg("HRevolve", max_n=n, ram=cm, disk=cd, **boxes.cv(c)))
                if n <= dn - shrink[c] and cm <= 2:
                    cfgs.append(mkcfg("DiskRevolve", max_n=n, ram=cm, **boxes.cv(c)))
                    cfgs.append(mkcfg("PeriodicDiskRevolve", max_n=n, ram=cm, **boxes.cv(c)))
                if n <= rn - shrink[c]:
                    cfgs.append(mkcfg("Revolve", max_n=n, ram=cm, **boxes.cv(c)))
    # larger box for the order relations only
    big_n = 20 if q else 40
    for n in range(1, big_n + 1):
        for c in costs:
            if n <= max(hbox["nmax"], dn, rn) and c not in extra:
                continue
            for cm in (1, 2, 3):
                for cd in (0, 1, 2, 3, 4):
                    cfgs.append(mkcfg("HRevolve", max_n=n, ram=cm, disk=cd, **boxes.cv(c)))
                for cls in ("Revolve", "DiskRevolve", "PeriodicDiskRevolve"):
                    cfgs.append(mkcfg(cls, max_n=n, ram=cm, **boxes.cv(c)))
    seen = set()
    cfgs = [c for c in cfgs if not (fw.cfg_key(c) in seen or seen.add(fw.cfg_key(c)))]
    from . import design
    ref = design.refines(ctx, "hier")
    traces = record.record_many(cfgs)
    verdicts = fw.validate(ctx, traces)
    fw.bind_totals(traces, verdicts)
    costidx = {(c if len(c) == 4 else c): i for i, c in enumerate(costs)}
    viols, insts, owner, order_claims, order_owner = [], [], [], [], []
    skipped = 0
    for t, v in zip(traces, verdicts):
        if t["ctor"]:
            continue
        if not executable(v) or v["phase"] != "done":
            skipped += 1
            continue
        p = t["p"]
        n = p["max_n"]
        cost = p["uf"] * v["cnt"]["nF"] + p["wd"] * v["cnt"]["nDW"] + p["rd"] * v["cnt"]["nDR"]
        cvi = costidx[(p["uf"], p["ub"], p["wd"], p["rd"]) + ((p["scale"],) if p.get("scale", 1) != 1 else ())]
        order_claims.append({"cls": t["cls"], "n": n, "cm": p["ram"],
                             "cd": p["disk"] if t["cls"] == "HRevolve" else 0, "cv": cvi,
                             "cost": cost})
        order_owner.append(t)
        inst = None
        sh = shrink[costs[cvi]]
        if n >= 2:
            if t["cls"] == "HRevolve" and n <= hbox["nmax"] - sh and p["ram"] in hbox["cms"] and p["disk"] in hbox["cds"]:
                inst = dict(cm=p["ram"], cd=p["disk"], oneread=0)
            elif t["cls"] == "DiskRevolve" and n <= dn - sh and p["ram"] <= 2:
                inst = dict(cm=p["ram"], cd=-1, oneread=1)
            elif t["cls"] == "Revolve" and n <= rn - sh:
                inst = dict(cm=p["ram"], cd=0, oneread=0)
        if inst:
            inst.update(n=n, uf=p["uf"], wd=p["wd"], rd=p["rd"], deps=0, claim=cost)
            insts.append(inst)
            owner.append(t)
    best = search(ctx, insts, timeout=3000)
    for idx, found in sorted(best.items()):
        t = owner[idx - 1]
        viols.append({"_lazy": (lambda inst=insts[idx - 1]: {"witness": witness(ctx, inst)}),
                      "property": "C07", "clause": "C07.optimal", "cls": t["cls"], "p": t["p"],
                      "N": t["N"],
                      "what": f"{fw.describe(t)}: cost {insts[idx-1]['claim']} (without ub*n), an executable "
                              f"schedule of cost {found} exists",
                      "trace": {"cls": t["cls"], "p": t["p"], "N": t["N"], "passes": 1,
                                "instance": insts[idx - 1]}})
    # link 2 for C07: the published recurrences (HierTables.tla) on the whole order box, and on the
    # optima of the exhaustive search (which validate the transcription itself)
    hcfgs, hidx, hclaims, howner = [], {}, [], []

    def cfg_of(p):
        key = (p["ram"], p["uf"], p["wd"], p["rd"])
        if key not in hidx:
            hcfgs.append({"cm": p["ram"], "uf": p["uf"], "wd": p["wd"], "rd": p["rd"], "cmax": 6})
            hidx[key] = len(hcfgs)
        return hidx[key]
    kind_of = {"Revolve": "rev", "DiskRevolve": "dsk", "HRevolve": "hrev"}
    for t, oc in zip(order_owner, order_claims):
        if t["cls"] in kind_of:
            hclaims.append({"kind": kind_of[t["cls"]], "cfg": cfg_of(t["p"]), "n": oc["n"],
                            "c": max(oc["cd"], 0), "v": oc["cost"]})
            howner.append(t)
    for idx, (inst, t) in enumerate(zip(insts, owner), start=1):
        hclaims.append({"kind": "opt" + kind_of[t["cls"]], "cfg": cfg_of(t["p"]), "n": inst["n"],
                        "c": max(inst["cd"], 0) if t["cls"] == "HRevolve" else 0,
                        "v": best.get(idx, inst["claim"])})
        howner.append(None)
    def hier_run(cfgs_, claims_, nmax_):
        hpath = os.path.join(ctx.dir, "hier.json")
        json.dump({"cfgs": cfgs_, "claims": claims_}, open(hpath, "w"))
        hr = tlc.run("HierTables", env={"CLAIMS_FILE": hpath, "OPT_NMAX": str(nmax_)}, timeout=1800, workers=1)
        ctx.add_run("HierTables", hr)
        if tlc.invariant_violated(hr) or not hr["ok"]:
            raise fw.Machinery(f"HierTables failed: {tlc.invariant_violated(hr)} {hr['error']}")
        hm = tlc.marked(hr)
        if not hm:
            raise fw.Machinery("HierTables printed no verdict")
        return hm[0][0]
    bad_h = list(hier_run(hcfgs, hclaims, big_n))
    # a thin layer of large step counts with expensive disks (few configurations, own table run)
    gcfgs, gclaims, gowner = [], [], []
    giants = [("DiskRevolve", 62, 1, 0, (1, 1, 50, 50)), ("DiskRevolve", 90, 2, 0, (1, 1, 50, 50)),
              ("DiskRevolve", 75, 1, 0, (1, 1, 15, 15)), ("HRevolve", 62, 1, 2, (1, 1, 50, 50)),
              ("HRevolve", 70, 2, 3, (1, 1, 15, 15)), ("HRevolve", 55, 1, 4, (2, 1, 9, 2)), ("Revolve", 90, 3, 0, (1, 1, 2, 2))]
    if not q:
        giants += [("DiskRevolve", 300, 1, 0, (1, 1, 500, 500)), ("DiskRevolve", 150, 2, 0, (1, 1, 120, 30)),
                   ("HRevolve", 120, 2, 3, (1, 1, 50, 50))]
    gtr = record.record_many([mkcfg(c, max_n=n, ram=cm, disk=(cd if c == "HRevolve" else -1), **boxes.cv(cv_))
                              for c, n, cm, cd, cv_ in giants])
    gver = fw.validate(ctx, gtr, tag="giants")
    for t, v in zip(gtr, gver):
        if t["ctor"] or not executable(v) or v["phase"] != "done":
            skipped += 1
            continue
        p = t["p"]
        key = (p["ram"], p["uf"], p["wd"], p["rd"])
        if key not in [(c["cm"], c["uf"], c["wd"], c["rd"]) for c in gcfgs]:
            gcfgs.append({"cm": p["ram"], "uf": p["uf"], "wd": p["wd"], "rd": p["rd"], "cmax": 6})
        k = [(c["cm"], c["uf"], c["wd"], c["rd"]) for c in gcfgs].index(key) + 1
        gclaims.append({"kind": kind_of[t["cls"]], "cfg": k, "n": p["max_n"], "c": max(p["disk"], 0),
                        "v": p["uf"] * v["cnt"]["nF"] + p["wd"] * v["cnt"]["nDW"] + p["rd"] * v["cnt"]["nDR"]})
        gowner.append(t)
    if gclaims:
        off = len(hclaims)
        for x in hier_run(gcfgs, gclaims, max(c["n"] for c in gclaims)):
            bad_h.append(off + x)
        hclaims += gclaims
        howner += gowner
    for x in bad_h:
        cl, t = hclaims[x - 1], howner[x - 1]
        if t is None:
            raise fw.Machinery(f"HierTables disagrees with the exhaustive optimum at {cl}: "
                               "the transcription of the recurrence is wrong")
        viols.append({"property": "C07", "clause": "C07.recurrence", "cls": t["cls"], "p": t["p"], "N": t["N"],
                      "what": f"{fw.describe(t)}: cost {cl['v']} (without ub*n) differs from the published "
                              f"recurrence",
                      "trace": {"cls": t["cls"], "p": t["p"], "N": t["N"], "passes": 1}})
    path = os.path.join(ctx.dir, "order.json")
    json.dump(order_claims, open(path, "w"))
    r = tlc.run("CostOrder", env={"CLAIMS_FILE": path}, timeout=1200)
    ctx.add_run("CostOrder", r)
    if not r["ok"] or r["distinct"] != len(order_claims):
        raise fw.Machinery(f"CostOrder failed: {r['error']}")
    for x, bad in tlc.marked(r):
        for y, clause in bad:
            a, b = order_owner[x - 1], order_owner[y - 1]
            viols.append({"property": "C07", "clause": clause, "cls": a["cls"], "p": a["p"],
                          "N": a["N"],
                          "what": f"{fw.describe(a)} cost {order_claims[x-1]['cost']} vs "
                                  f"{fw.describe(b)} cost {order_claims[y-1]['cost']}",
                          "trace": {"cls": a["cls"], "p": a["p"], "N": a["N"], "passes": 1,
                                    "sibling": fw.describe(b)}})
    cov = {
        "traces_validated_against_impl": len(traces),
        "search_instances": len(insts),
        "search_box": f"HRevolve n<={hbox['nmax']} cm in {hbox['cms']} cd in {hbox['cds']}; "
                      f"DiskRevolve (one read, unbounded disk) n<={dn} cm<=2; Revolve n<={rn} cm<=3; "
                      f"{len(costs)} integer cost vectors incl. uf!=ub, wd!=rd",
        "order_claims": len(order_claims), "order_box": f"n <= {big_n}",
        "recurrence_claims": len(hclaims), "recurrence_configurations": len(hcfgs),
        "search_space_soundness": ref,
        "streams_skipped_not_executable": skipped,
        "cost_vectors": [list(c) for c in costs],
        "samples": [{"instance": insts[0]}, {"instance": insts[len(insts) // 2]},
                    {"order_claim": order_claims[-1]}],
        "exhaustive": True,
        "rule": "ExecOpt explores every behaviour (operation model of H-Revolve: store on advance to "
                "RAM/DISK, load, discard; no direct RAM<->DISK transfer) with cost below the claim",
    }
    cov["design_level_generator_model"] = design.gen_disk(ctx)
    try:        # diagnostic, never a violation and never breaks the check
        from . import classprops
        cov["conformance_drift"] = classprops.gen_drift_disk(ctx, 16 if ctx.tier == "quick" else 30)
    except Exception as ex:
        cov["conformance_drift"] = {"status": "diagnostic could not be completed", "error": f"{type(ex).__name__}: {ex}"[:400]}
    return viols, cov, ["the search space is the operation model of Revolve / Disk-Revolve / H-Revolve "
                        "(no direct transfer between RAM and DISK)",
                        "beyond the searched box: the recurrences of Aupy et al. (2016) and Herrmann & Pallez (2020) "
                        "as transcribed in HierTables.tla (checked against the exhaustive optimum inside the box), "
                        "and the order relations between siblings"]
