"""Shared helpers of the conformance harness: locating the library under test,
the integer embedding used in traces, and the numeric codes of the trace format.

The trace format is documented in spec/TraceFormat.md and decoded by
spec/TraceExec.tla (operators EvC, EvO, ...).  Every judgement is made by the
TLA+ specification; this module only *encodes* what the library returned.
"""
import os
import sys

VERIF = os.path.dirname(os.path.dirname(os.path.abspath(__file__)))
REPO = os.environ.get("VERIF_REPO", "/repo")

MAXSIZE = sys.maxsize
BIG = 10 ** 9          # order-embedding of q*sys.maxsize + r  (q in 1..1000, r < 10**6)
BIGQ = 10 ** 6
WEIRD = 2 * 10 ** 9    # anything that is not representable
NOINT = -7             # "not an integer at all"


def use_repo(numba_stub=False):
    """Put the library under test (and optionally the numba stub) first on sys.path."""
    repo = os.path.abspath(REPO)
    if numba_stub:
        sys.path.insert(0, os.path.join(VERIF, "harness", "stubs"))
    sys.path.insert(0, repo)
    import checkpoint_schedules  # noqa: F401
    got = os.path.abspath(checkpoint_schedules.__file__)
    if not got.startswith(repo + os.sep):
        raise SystemExit(f"MACHINERY: checkpoint_schedules imported from {got}, "
                         f"not from {repo}")
    return checkpoint_schedules


def enc(v):
    """Order-preserving embedding of the step numbers the library uses into TLC's
    32-bit integers.  Small values are themselves; q*sys.maxsize + r is mapped to
    BIG + q*BIGQ + r; anything else is WEIRD (never equal to a legitimate value)."""
    try:
        import numpy as np
        if isinstance(v, (np.integer,)):
            v = int(v)
        elif isinstance(v, (np.bool_,)):
            v = int(bool(v))
    except ImportError:  # pragma: no cover
        pass
    if isinstance(v, bool):
        return int(v)
    if isinstance(v, float):
        if v != v or v in (float("inf"), float("-inf")):
            return WEIRD
        if v == int(v):
            v = int(v)
        else:
            return WEIRD
    if not isinstance(v, int):
        return NOINT
    if -BIG < v < BIG:
        return v
    if v >= BIG:
        q, r = divmod(v, MAXSIZE)
        if 1 <= q <= 1000 and 0 <= r < BIGQ:
            return BIG + q * BIGQ + r
    return WEIRD


def tycode(v):
    """Python type tag of one action argument (decoded by C18.shape in the spec)."""
    try:
        import numpy as np
        if isinstance(v, np.bool_):
            return 4
        if isinstance(v, np.integer):
            return 3
    except ImportError:  # pragma: no cover
        pass
    if isinstance(v, bool):
        return 1
    if isinstance(v, int):
        return 0
    if isinstance(v, float):
        return 5
    if v is None:
        return 6
    if type(v).__name__ == "StorageType":
        return 2
    return 7


def tyword(args):
    w = 0
    for i, a in enumerate(args):
        w += tycode(a) * (8 ** i)
    return w


# storage codes
ST_RAM, ST_DISK, ST_WORK, ST_NONE, ST_OTHER = 0, 1, 2, 3, 4


def stcode(s):
    name = getattr(s, "name", None)
    if type(s).__name__ != "StorageType":
        return ST_OTHER
    return {"RAM": ST_RAM, "DISK": ST_DISK, "WORK": ST_WORK, "NONE": ST_NONE}.get(name, ST_OTHER)


def flag(v):
    """0/1 for a (numpy) boolean, 2 for anything else that is truthy, 3 falsy non-bool."""
    if v is True:
        return 1
    if v is False:
        return 0
    try:
        import numpy as np
        if isinstance(v, np.bool_):
            return int(bool(v))
    except ImportError:  # pragma: no cover
        pass
    try:
        return 2 if v else 3
    except Exception:
        return 2


# call codes
C_NEXT, C_FIN, C_OBS, C_HELPER = 0, 1, 2, 3
# outcome codes of next(): action / StopIteration / other exception
O_ACT, O_STOP, O_EXC = 0, 1, 2
# outcome codes of finalize(): ok / ValueError / RuntimeError / other exception
F_OK, F_VALUE, F_RUNTIME, F_OTHER = 0, 1, 2, 3
# action kinds
K_F, K_R, K_C, K_M, K_EF, K_ER, K_NONE = 0, 1, 2, 3, 4, 5, 9

CLASSES = ["SingleMemory", "SingleDiskCopy", "SingleDiskMove", "None", "Multistage",
           "Mixed", "TwoLevel", "Revolve", "DiskRevolve", "PeriodicDiskRevolve", "HRevolve"]


class Hung(Exception):
    """A call into the library did not return in time (reported like any other failure of the call)."""


_HANGS = {}


def timed(key, fn, seconds=10):
    """Run fn() under a SIGALRM watchdog (main thread of the calling process).  A hang becomes the
    exception Hung; after three hangs under the same key the call is not attempted again, so a
    library that loops for ever costs seconds, not the whole check."""
    import signal
    if _HANGS.get(key, 0) >= 3:
        raise Hung(f"{key}: not called again after 3 hangs")

    def on_alarm(signum, frame):
        raise Hung(f"{key}: no result within {seconds} s")
    old = signal.signal(signal.SIGALRM, on_alarm)
    signal.alarm(seconds)
    try:
        return fn()
    except Hung:
        _HANGS[key] = _HANGS.get(key, 0) + 1
        raise
    finally:
        signal.alarm(0)
        signal.signal(signal.SIGALRM, old)
