"""Turn a TLC counterexample of ExecOpt (a complete behaviour cheaper than the implementation's)
into the action stream it stands for, and validate that stream against the FULL Executor
(TraceExec): a reported "cheaper executable schedule" is then executable by the same
specification that judges the implementation."""
import re

from . import framework as fw, tlaval

VARS = ("par", "pos", "a", "ram", "disk", "dep", "cost")


def parse_states(steps):
    out = []
    for st in steps:
        txt = st["state"]
        d = {}
        parts = re.split(r"/\\ (\w+) = ", " " + txt)
        for i in range(1, len(parts) - 1, 2):
            name, val = parts[i], parts[i + 1].strip()
            if name in VARS:
                try:
                    d[name] = tlaval.parse(val)
                except Exception:
                    d[name] = None
        out.append(d)
    return out


def ev(k, a=0, b=0, wi=0, wd=0, s=3, t=3):
    # [c, o, k, a, b, wi, wd, s, t, n, r, m, x, g, u, ty]; observers are not part of a synthetic stream
    return [0, 0, k, a, b, wi, wd, s, t, 0, 0, 0, 0, 0, 0, 0]


def to_actions(states):
    """Infer the Executor actions between consecutive ExecOpt states."""
    par = states[0]["par"]
    n = par["n"]
    acts = []
    ef_done = False
    for s0, s1 in zip(states, states[1:]):
        ram0, ram1 = set(s0["ram"]), set(s1["ram"])
        disk0, disk1 = set(s0["disk"]), set(s1["disk"])
        dep0, dep1 = set(s0["dep"]), set(s1["dep"])
        pos0, pos1, a0, a1 = s0["pos"], s1["pos"], s0["a"], s1["a"]

        def drops(lim):
            for c in sorted(ram0 - ram1):
                if c >= lim:
                    acts.append(ev(3, c, s=0, t=3))
            for c in sorted(disk0 - disk1):
                if c >= lim:
                    acts.append(ev(3, c, s=1, t=3))
            for c in sorted(dep0 - dep1):
                if c >= lim:
                    acts.append(ev(3, c, s=0, t=3))
        if a1 == a0 - 1:
            if s1["cost"] > s0["cost"]:                  # StepRev
                acts.append(ev(0, a0 - 1, a0, 0, 1, 2))
            else:                                        # RevStored
                acts.append(ev(3, a0 - 1, s=0, t=2))
                dep0 = dep0 - {a0 - 1}
            if not ef_done and a0 == n:
                acts.append(ev(4))
                ef_done = True
            drops(a1)          # items at or beyond the new adjoint position are released before the Reverse
            acts.append(ev(1, a0, a0 - 1, 1))
            continue
        if pos0 >= 0 and (pos1 > pos0 or (pos1 == -1 and s1["cost"] > s0["cost"])):
            # Advance / Overshoot / StoreDeps, possibly with an eviction first
            newram, newdisk, newdep = ram1 - ram0, disk1 - disk0, dep1 - dep0
            for c in sorted(ram0 - ram1):
                acts.append(ev(3, c, s=0, t=3))
            for c in sorted(disk0 - disk1):
                acts.append(ev(3, c, s=1, t=3))
            for c in sorted(dep0 - dep1):
                acts.append(ev(3, c, s=0, t=3))
            if newdep:
                acts.append(ev(0, pos0, pos0 + 1, 0, 1, 0))
            else:
                end = pos1 if pos1 >= 0 else a0
                st = 0 if newram else 1 if newdisk else 2
                acts.append(ev(0, pos0, end, 1 if st != 2 else 0, 0, st))
            continue
        if pos1 >= 0 and (pos1 in ram0 or pos1 in disk0) and a1 == a0 and s1["cost"] >= s0["cost"] \
                and (ram0 - ram1 <= {pos1}) and (disk0 - disk1 <= {pos1}) and dep0 == dep1 \
                and (pos1 != pos0 or ram0 != ram1 or disk0 != disk1 or s1["cost"] > s0["cost"]):
            from_disk = s1["cost"] > s0["cost"] or (pos1 in disk0 and pos1 not in ram0)
            moved = (pos1 not in (disk1 if from_disk else ram1))
            acts.append(ev(3 if moved else 2, pos1, s=1 if from_disk else 0, t=2))
            continue
        # Discard
        for c in sorted(ram0 - ram1):
            acts.append(ev(3, c, s=0, t=3))
        for c in sorted(disk0 - disk1):
            acts.append(ev(3, c, s=1, t=3))
        for c in sorted(dep0 - dep1):
            acts.append(ev(3, c, s=0, t=3))
    acts.append(ev(5))
    # a checkpoint that is discarded again before EndForward need not have been stored at all
    # (no Copy or Move may occur before EndForward): un-store it
    ef = next(i for i, x in enumerate(acts) if x[2] == 4)
    out = []
    for i, x in enumerate(acts):
        if i < ef and x[2] == 3 and x[8] == 3:
            for y in out:
                if y[2] == 0 and y[3] == x[3] and y[7] == x[7] and (y[5] or y[6]):
                    y[5], y[6], y[7] = 0, 0, 2
            continue
        out.append(x)
    return out


def validate(ctx, inst, steps):
    """Returns a dict describing the witness: its action stream, its cost as re-derived by the
    Executor specification, and the executor clauses (C01, C02, C03, C12) it fails, if any."""
    states = [s for s in parse_states(steps) if all(v in s and s[v] is not None for v in VARS)]
    if len(states) < 2:
        return {"witness_stream": None, "note": "counterexample could not be parsed"}
    acts = to_actions(states)
    n = inst["n"]
    p = dict(max_n=n, ram=inst["cm"], disk=inst["cd"], traj=0, st=0, period=-1,
             uf=inst["uf"], ub=1, wd=inst["wd"], rd=inst["rd"])
    cls = "Mixed" if inst.get("deps") else ("DiskRevolve" if inst["cd"] < 0 else "HRevolve")
    t = {"cls": cls, "p": p, "N": n, "passes": 1, "ctor": 0, "hung": 0, "capped": 0, "sib": 0, "sibo": 0,
         "siblen": 0, "prefix": 0, "ev": acts}
    v = fw.validate(ctx, [t], tag="witness")[0]
    bad = sorted({c for c, _, _ in v["viol"] if c.startswith(("C01.", "C02.", "C03.", "C12."))})
    cost = inst["uf"] * v["cnt"]["nF"] + inst["wd"] * v["cnt"]["nDW"] + inst["rd"] * v["cnt"]["nDR"]
    return {"witness_stream": [a[2:9] for a in acts], "witness_cost_by_executor": cost,
            "witness_cost_by_search": states[-1]["cost"],
            "witness_executable_by_Executor": not bad and v["phase"] == "done", "witness_failed_clauses": bad}
