"""Generates /verif/MANIFEST.json from one table (python -m harness.manifest)."""
import json
import os

from .common import VERIF

TRACE_TB = ("TLC 1.8 + CommunityModules Json; harness/record.py encodes what the library "
            "returned without judging it; Executor.tla's semantics of actions (transcribed from "
            "schedule.py docstrings and tests/test_validity.py's reference executor)")

E_TEXT = ("Every configuration of an exhaustively enumerated parameter box is driven through the real "
          "class from /repo's working tree; every public call and all observer values are logged; TLC "
          "replays each log through the Executor/SchedAPI specification and evaluates every clause of "
          "this property in every state of every trace (all passes, every prefix). The same clauses are "
          "model-checked for mutual consistency on the free specification (ExecFree).")

OPT_TEXT = ("Optimality over ALL executable schedules is decided by TLC exhaustively exploring every behaviour of the "
            "executor machine (ExecOpt.tla) whose cost could still end below the cost the implementation achieved "
            "(claims are totals of implementation traces validated against the full Executor); a cheaper completed "
            "behaviour is a violation with TLC's counterexample as witness. Beyond the searched box the closed "
            "form / recurrence (OptTables.tla, built row by row and itself checked against the exhaustive optimum) "
            "is compared with the implementation on a larger box.")
H_TEXT = ("TLC chooses what is done to the code and judges what the code did: the specification enumerates the "
          "behaviours (call histories / process interleavings / parameter tuples / action pairs), the harness replays "
          "each into real objects from /repo's working tree, and TLC validates the resulting logs against the "
          "specification's clauses.")
X_TEXT = ("Trace validation with a specification extending TraceExec by history variables for this class; every clause "
          "evaluated at every event of every trace of an exhaustively enumerated box.")

CHECKS = {
    "C01": ("trace validation against Executor.tla (TLC), exhaustive parameter box", E_TEXT, "5 C01", "tlc-trace-validation"),
    "C02": ("trace validation against Executor.tla (TLC), exhaustive parameter box", E_TEXT, "5 C02", "tlc-trace-validation"),
    "C03": ("trace validation: budget invariants of Executor.tla in every state (TLC)", E_TEXT, "5 C03", "tlc-trace-validation"),
    "C04": ("trace validation: storage-clean clauses at every EndReverse (TLC)", E_TEXT, "5 C04", "tlc-trace-validation"),
    "C05": ("TLC exhaustive search of all executable schedules (ExecOpt.tla, simulation Executor=>ExecOpt checked by ExecRefines.tla) + Griewank-Walther closed form/recurrence state machine and Bellman check of every planner step (OptTables.tla) on validated trace totals + nondeterministic generator model GenBinomial at design level", OPT_TEXT, "5 C05", "tlc-exhaustive-search"),
    "C06": ("TLC exhaustive search of all executable schedules with mixed units (ExecOpt.tla, ExecRefines.tla) + mixed recurrence and planner-entry scan (OptTables.tla) + nondeterministic generator model GenMixed at design level", OPT_TEXT, "5 C06", "tlc-exhaustive-search"),
    "C07": ("TLC exhaustive cost-bounded search over RAM/DISK hierarchies and integer/fractional cost vectors (ExecOpt.tla, ExecRefines.tla) + Disk-Revolve/H-Revolve recurrences as a state machine (HierTables.tla) + sibling order relations (CostOrder.tla)", OPT_TEXT, "5 C07", "tlc-exhaustive-search"),
    "C08": ("trace validation: observer clauses of SchedAPI.tla after every call, on the trace box and on TLC-enumerated call histories with finalize probes at every stream position (TLC)", E_TEXT, "5 C08", "tlc-trace-validation"),
    "C09": ("trace validation of pass structure/exhaustion flags + TLC-enumerated call histories (Client.tla) replayed into the code", E_TEXT + " " + H_TEXT, "5 C09", "tlc-trace-validation"),
    "C10": ("TLC-enumerated call histories (Client.tla) and finalize probes at every stream position replayed into the real classes, logs validated against the finalize guard of SchedAPI.tla (TraceClient.tla); generator models GenBasicFree at design level", H_TEXT, "5 C10", "tlc-history-replay"),
    "C11": ("trace validation: uses_storage_type vs storages touched by the stream, on the trace box and on TLC-enumerated call histories (TLC)", E_TEXT, "5 C11", "tlc-trace-validation"),
    "C12": ("trace validation: WORK-storage clauses/invariant of Executor.tla (TLC)", E_TEXT, "5 C12", "tlc-trace-validation"),
    "C13": ("trace validation with block history variable (TraceTwoLevel.tla) + GW closed form (GWForm.tla) + planner-guided one-block configurations + generator model GenTwoLevel at design level", X_TEXT, "5 C13", "tlc-trace-validation"),
    "C14": ("trace validation with checkpoint-stack history and all-DISK sibling trace (TraceMultistage.tla)", X_TEXT, "5 C14", "tlc-trace-validation"),
    "C15": ("TLC-generated process interleavings (Process.tla) replayed in one interpreter, streams compared with fresh-interpreter references (TraceSibling.tla)", H_TEXT, "5 C15", "tlc-history-replay"),
    "C16": ("stub-numba second planner path: table entries judged by TLC (PlanTable.tla, OptTables.tla), streams compared event-wise (TraceSibling.tla)", H_TEXT, "5 C16", "tlc-trace-validation"),
    "C17": ("TLC-enumerated boundary box with zones (Domain.tla) replayed into constructors/iterators, traces judged by TraceDomain.tla", H_TEXT, "5 C17", "tlc-history-replay"),
    "C18": ("shape clauses on every emitted action (TraceExec.tla) + TLC-enumerated action universe, all ordered pairs judged by ActionPairs.tla", H_TEXT, "5 C18", "tlc-history-replay"),
    "C19": ("trace validation with period/segment history variables (TracePeriodic.tla) + Aupy-Herrmann closed form (GWForm.tla)", X_TEXT, "5 C19", "tlc-trace-validation"),
}

PENDING = {}


def build():
    props = [json.loads(l) for l in open(os.path.join(VERIF, "properties.jsonl"))]
    checks = []
    na = []
    for p in props:
        pid = p["id"]
        if pid in CHECKS:
            tech, text, ref, eng = CHECKS[pid]
            checks.append({
                "property_id": pid,
                "quick_cmd": f"./check {pid} --tier quick",
                "thorough_cmd": f"./check {pid} --tier thorough",
                "evidence_file": f"/verif/evidence/{pid}.json",
                "replay_cmd_template": f"./check {pid} --replay {{path}}",
                "engine": eng,
                "level_claimed": {"category": "model_checking", "text": text,
                                  "design_ref": f"DESIGN.md section {ref}"},
                "level_note": TRACE_TB,
                "technique": tech,
            })
        else:
            na.append({"property_id": pid,
                       "reason": PENDING.get(pid, "check under construction in this session; "
                                                  "will be decided with the TLA+ specification (DESIGN.md section 5)")})
    m = {
        "version": 1,
        "setup_cmd": "make -C /verif setup",
        "hooks": {"guard": "CHECKPOINT_SCHEDULES_VERIF",
                  "enable": "no source hooks: the library is sequential and its public API exposes every "
                            "observable the specification talks about; the harness imports /repo's working tree "
                            "(VERIF_REPO overrides the path for self-tests)",
                  "baseline_off_cmd": "cd /repo && /venv/bin/python -m pytest -ra -q -p no:cacheprovider --timeout=900 --continue-on-collection-errors",
                  "source_commits": [], "add_only": True},
        "engines": [
            {"name": "tlc-trace-validation", "path": "/verif/spec/TraceExec.tla",
             "serves_properties": sorted(p for p in CHECKS if CHECKS[p][3] == "tlc-trace-validation"),
             "kind_free_text": "code -> spec: explicit TLA+ specification (CkptActions/Executor/SchedAPI and the "
                               "class-specific extensions) checked with TLC; traces recorded from the real classes "
                               "are replayed through the same operators, every clause evaluated in every state"},
            {"name": "tlc-exhaustive-search", "path": "/verif/spec/ExecOpt.tla",
             "serves_properties": sorted(p for p in CHECKS if CHECKS[p][3] == "tlc-exhaustive-search"),
             "kind_free_text": "TLC explores every behaviour of the executor machine below the implementation's cost; "
                               "OptTables/CostOrder check closed forms, recurrences and order relations"},
            {"name": "tlc-history-replay", "path": "/verif/spec/Client.tla",
             "serves_properties": sorted(p for p in CHECKS if CHECKS[p][3] == "tlc-history-replay"),
             "kind_free_text": "spec -> code -> spec: TLC-generated behaviours (Client, Process, Domain, ActionUniverse) "
                               "are replayed into the real objects and the logs validated by TLC"}],
        "checks": checks,
        "not_applicable": na,
        "notes": "see DESIGN.md; ./check <ID> [--tier quick|thorough] [--replay PATH] is the only entry point",
    }
    return m


if __name__ == "__main__":
    m = build()
    with open(os.path.join(VERIF, "MANIFEST.json"), "w") as f:
        json.dump(m, f, indent=1)
    print("wrote MANIFEST.json with", len(m["checks"]), "checks;", len(m["not_applicable"]), "not claimed")
