"""Generates /verif/MANIFEST.json from one table (python -m harness.manifest)."""
import json
import os

from .common import VERIF

TRACE_TB = ("TLC 1.8 + CommunityModules Json; harness/record.py encodes what the library "
            "returned without judging it; Executor.tla's semantics of actions (transcribed from "
            "schedule.py docstrings and tests/test_validity.py's reference executor)")

E_TEXT = ("Every configuration of an exhaustively enumerated parameter box is driven through the real "
          "class from /repo's working tree; every public call and all observer values are logged; TLC "
          "replays each log through the Executor/SchedAPI specification and evaluates every clause of "
          "this property in every state of every trace (all passes, every prefix). The same clauses are "
          "model-checked for mutual consistency on the free specification (ExecFree).")

CHECKS = {
    "C01": ("trace validation against Executor.tla (TLC), exhaustive parameter box", E_TEXT, "5 C01"),
    "C02": ("trace validation against Executor.tla (TLC), exhaustive parameter box", E_TEXT, "5 C02"),
    "C03": ("trace validation: budget invariants of Executor.tla in every state (TLC)", E_TEXT, "5 C03"),
    "C04": ("trace validation: storage-clean clauses at every EndReverse (TLC)", E_TEXT, "5 C04"),
    "C08": ("trace validation: observer clauses of SchedAPI.tla after every call (TLC)", E_TEXT, "5 C08"),
    "C09": ("trace validation of pass structure/exhaustion flags + TLC-enumerated call histories", E_TEXT, "5 C09"),
    "C11": ("trace validation: uses_storage_type vs storages touched by the stream (TLC)", E_TEXT, "5 C11"),
    "C12": ("trace validation: WORK-storage clauses/invariant of Executor.tla (TLC)", E_TEXT, "5 C12"),
}

PENDING = {}


def build():
    props = [json.loads(l) for l in open(os.path.join(VERIF, "properties.jsonl"))]
    checks = []
    na = []
    for p in props:
        pid = p["id"]
        if pid in CHECKS:
            tech, text, ref = CHECKS[pid]
            checks.append({
                "property_id": pid,
                "quick_cmd": f"./check {pid} --tier quick",
                "thorough_cmd": f"./check {pid} --tier thorough",
                "evidence_file": f"/verif/evidence/{pid}.json",
                "replay_cmd_template": f"./check {pid} --replay {{path}}",
                "engine": "tlc-trace-validation",
                "level_claimed": {"category": "model_checking", "text": text,
                                  "design_ref": f"DESIGN.md section {ref}"},
                "level_note": TRACE_TB,
                "technique": tech,
            })
        else:
            na.append({"property_id": pid,
                       "reason": PENDING.get(pid, "check under construction in this session; "
                                                  "will be decided with the TLA+ specification (DESIGN.md section 5)")})
    m = {
        "version": 1,
        "setup_cmd": "make -C /verif setup",
        "hooks": {"guard": "CHECKPOINT_SCHEDULES_VERIF",
                  "enable": "no source hooks: the library is sequential and its public API exposes every "
                            "observable the specification talks about; the harness imports /repo's working tree "
                            "(VERIF_REPO overrides the path for self-tests)",
                  "baseline_off_cmd": "cd /repo && /venv/bin/python -m pytest -ra -q -p no:cacheprovider --timeout=900 --continue-on-collection-errors",
                  "source_commits": [], "add_only": True},
        "engines": [
            {"name": "tlc-trace-validation", "path": "/verif/spec/TraceExec.tla",
             "serves_properties": sorted(CHECKS),
             "kind_free_text": "explicit TLA+ specification (CkptActions/Executor/SchedAPI) checked with TLC; "
                               "bound to the code by validating recorded traces and by replaying TLC-generated "
                               "behaviours into the real classes"}],
        "checks": checks,
        "not_applicable": na,
        "notes": "see DESIGN.md; ./check <ID> [--tier quick|thorough] [--replay PATH] is the only entry point",
    }
    return m


if __name__ == "__main__":
    m = build()
    with open(os.path.join(VERIF, "MANIFEST.json"), "w") as f:
        json.dump(m, f, indent=1)
    print("wrote MANIFEST.json with", len(m["checks"]), "checks;", len(m["not_applicable"]), "not claimed")
