"""C16: Mixed schedules are identical with and without numba.

numba is not installed (and cannot be fetched); a stub `numba` (harness/stubs) whose njit is
the identity makes the library take its "numba importable" path - the tabulated planner - in
pure Python, in a separate interpreter.  (a) every entry of the planner table against the
memoised planner (PlanTable.tla) and against the mixed recurrence (OptTables.tla);
(b) the Mixed trace box recorded on both paths: equal streams by value (TraceSibling.tla),
both validated against Executor."""
import json
import os
import subprocess
import sys

from . import boxes, common, framework as fw, record, tlc, optim
from .common import VERIF


def stream_box(nbox):
    """Dense small box plus a sparse layer of larger (n, s) for the stream comparison."""
    from .record import mkcfg
    big = [mkcfg("Mixed", max_n=n, ram=s, st=1) for n in (52, 61, 77, 90, 130) for s in (1, 2, 4, 7, 11, n - 2)]
    return boxes.mixed(nbox) + big


def worker(np_, nbox):
    """Runs in the interpreter that has the stub numba on sys.path."""
    cs = record.lib()
    import checkpoint_schedules.mixed as mx
    out = {"numba": getattr(mx.numba, "__version__", None) if mx.numba is not None else None}
    entries = []
    if not (hasattr(mx, "mixed_steps_tabulation") and hasattr(mx, "mixed_step_memoization")):
        out["entries"] = []        # planners renamed: only the streams of the two paths are compared
        out["traces"] = record.record_many(stream_box(nbox), procs=8)
        return out
    RAISED = [-1, -1, -1]        # a planner that raises prescribes nothing: encoded as an impossible triple

    def memo(n, s):
        try:
            m = common.timed('memo', lambda: mx.mixed_step_memoization(n, s), 30)
            return [int(m[0]), int(m[1]), int(m[2])], None
        except Exception as ex:
            return RAISED, f"{type(ex).__name__}: {ex}"[:120]

    def table(n, s):
        try:
            return common.timed('table', lambda: mx.mixed_steps_tabulation(n, s), 300), None
        except Exception as ex:
            return None, f"{type(ex).__name__}: {ex}"[:120]

    def entry(n, s, tab, terr, src):
        m, merr = memo(n, s)
        if tab is None:
            t = RAISED
        else:
            try:
                t = [int(tab[n, s, 0]), int(tab[n, s, 1]), int(tab[n, s, 2])]
            except Exception as ex:
                t, terr = RAISED, f"{type(ex).__name__}: {ex}"[:120]
        e = {"n": n, "s": s, "m": m, "t": t, "src": src}
        if merr or (terr and t == RAISED):
            e["raised"] = {"memoised": merr, "tabulated": terr if t == RAISED else None}
        return e

    tab, terr = table(np_, np_ - 1)
    for n in range(1, np_ + 1):
        for s in range(1, n):
            entries.append(entry(n, s, tab, terr, f"table({np_},{np_-1})[{n},{s}]"))
    for n in range(2, min(np_, 18) + 1):
        for s in range(1, n):
            t2, e2 = table(n, s)
            entries.append(entry(n, s, t2, e2, f"table({n},{s})[{n},{s}]"))
    out["entries"] = entries
    out["traces"] = record.record_many(stream_box(nbox), procs=8)
    return out


def check(ctx):
    q = ctx.tier == "quick"
    np_, nbox = (40, 24) if q else (80, 45)
    env = dict(os.environ, VERIF_NUMBA_STUB="1", PYTHONHASHSEED="0")
    p = subprocess.run([sys.executable, "-m", "harness.c16", str(np_), str(nbox)], cwd=VERIF, env=env,
                       capture_output=True, text=True, timeout=3000)
    if p.returncode != 0:
        raise fw.Machinery("stub-numba worker failed: " + p.stderr[-1500:])
    w = json.loads(p.stdout)
    if not w["numba"]:
        raise fw.Machinery("the stub numba was not picked up by checkpoint_schedules.mixed")
    viols = []
    # (a) table entries
    path = os.path.join(ctx.dir, "plan.json")
    json.dump([{k: e[k] for k in ("n", "s", "m", "t")} for e in w["entries"]], open(path, "w"))
    r = tlc.run("PlanTable", env={"PLAN_FILE": path}, timeout=600) if w["entries"] else None
    if r is not None:
        ctx.add_run("PlanTable", r)
        if not r["ok"] or r["distinct"] != len(w["entries"]):
            raise fw.Machinery(f"PlanTable failed: {r['error']}")
    for (x,) in (tlc.marked(r) if r is not None else []):
        e = w["entries"][x - 1]
        viols.append({"property": "C16", "clause": "C16.table", "cls": "planner", "p": {}, "N": e["n"],
                      "what": f"{e['src']}: memoised {e['m']} vs tabulated {e['t']}"
                              + (f" (raised: {e['raised']})" if e.get("raised") else ""),
                      "trace": {"entry": e}})
    claims = []
    for e in w["entries"]:
        claims.append({"kind": "mix", "n": e["n"], "s": e["s"], "v": e["t"][2]})
        claims.append({"kind": "mix", "n": e["n"], "s": e["s"], "v": e["m"][2]})
    bad = optim.tables(ctx, claims, np_) if claims else []
    for b in bad:
        e = w["entries"][b // 2]
        which = "tabulated" if b % 2 == 0 else "memoised"
        viols.append({"property": "C16", "clause": "C16.cost", "cls": "planner", "p": {}, "N": e["n"],
                      "what": f"{e['src']}: {which} cost {claims[b]['v']} differs from the mixed recurrence",
                      "trace": {"entry": e}})
    # (b) streams on both paths
    memo = record.record_many(stream_box(nbox))
    stub = w["traces"]
    if len(memo) != len(stub):
        raise fw.Machinery("trace boxes of the two paths differ in size")
    traces = []
    for a, b in zip(memo, stub):
        if fw.cfg_key(a) != fw.cfg_key(b):
            raise fw.Machinery("trace boxes of the two paths are not aligned")
        a = dict(a, grp=len(traces), siblen=0)
        b = dict(b, grp=len(traces) - 0, sibo=1, siblen=1, path=1)
        b["grp"] = a["grp"]
        traces += [a, b]
    verdicts = fw.validate(ctx, traces, module="TraceSibling")
    for t, v in zip(traces, verdicts):
        for clause, pos, later in v["viol"]:
            if clause.startswith("SIB."):
                viols.append({"property": "C16", "clause": "C16.stream", "cls": "Mixed", "p": t["p"],
                              "N": t["N"], "pos": pos,
                              "what": f"{fw.describe(t)}: tabulated-path stream differs from the memoised-path "
                                      f"stream at event {pos} ({clause})",
                              "trace": {k: t[k] for k in ("cls", "p", "N", "passes", "ev")}})
            elif t.get("path") == 1 and clause.startswith(optim.EXEC_CLAUSES):
                viols.append({"property": "C16", "clause": "C16.stream", "cls": "Mixed", "p": t["p"],
                              "N": t["N"], "pos": pos,
                              "what": f"{fw.describe(t)}: tabulated-path stream is not executable ({clause} "
                                      f"at event {pos})",
                              "trace": {k: t[k] for k in ("cls", "p", "N", "passes", "ev")}})
    cov = {"traces_validated_against_impl": len(traces), "table_entries": len(w["entries"]),
           "table_box": f"all (n, s) with n<={np_}, 1<=s<=n-1 from table({np_},{np_-1}); own tables for n<=18",
           "stream_box": f"Mixed n<={nbox}, s<=n+1, both storages, on both planner paths",
           "numba": w["numba"], "exhaustive": True,
           "samples": ([w["entries"][0], w["entries"][len(w["entries"]) // 2]] if w["entries"] else [])
                      + [{"config": fw.describe(stub[-1]), "first_events": stub[-1]["ev"][:4]}],
           "rule": "every table entry compared by TLC (PlanTable); every stream pair compared event by event "
                   "(TraceSibling)"}
    return viols, cov, ["behaviour under a real numba JIT cannot be observed here (numba is not installed): the "
                        "tabulated planner runs in pure Python through a stub whose njit is the identity",
                        "numpy.int64 values are integral and compared by value"]


if __name__ == "__main__":
    sys.path.insert(0, VERIF)
    print(json.dumps(worker(int(sys.argv[1]), int(sys.argv[2]))))
