"""C15: a schedule's stream depends only on its own parameters.

Reference streams: every configuration of a pool is run in a FRESH interpreter with bare
next() calls.  Process.tla generates process histories (exhaustive to a small depth over a tiny
pool; TLC -simulate for long interleavings over the whole pool) in which objects are
constructed, advanced and observed in arbitrary interleavings, mixed with helper calls; all
histories are replayed in ONE interpreter, in TLC's order, so that memoisation caches and any
other process-global state carry over; TraceSibling requires every object's i-th next() to
return what the reference's i-th next() returned."""
import json
import os
import subprocess
import sys

from . import framework as fw, record, tlc
from .common import VERIF
from .record import mkcfg, Driver, ONLINE

NREF = 72      # next() calls of a reference stream


def pool(tier):
    p = [mkcfg("Mixed", max_n=4, ram=1, st=0), mkcfg("Multistage", max_n=4, ram=1, disk=1),
         mkcfg("SingleMemory", N=2, passes=3), mkcfg("SingleDiskCopy", N=3, passes=3),
         mkcfg("SingleDiskMove", N=3), mkcfg("None", N=2, passes=0),
         mkcfg("TwoLevel", N=5, passes=3, period=2, ram=1, st=0),
         mkcfg("TwoLevel", N=7, passes=3, period=3, ram=2, st=1, traj=1),
         mkcfg("Multistage", max_n=6, ram=1, disk=2), mkcfg("Multistage", max_n=8, ram=0, disk=3, traj=1),
         mkcfg("Multistage", max_n=10, ram=2, disk=1), mkcfg("Multistage", max_n=13, ram=2, disk=2),
         mkcfg("Mixed", max_n=6, ram=2, st=0), mkcfg("Mixed", max_n=9, ram=3, st=1),
         mkcfg("Mixed", max_n=12, ram=2, st=1), mkcfg("Mixed", max_n=5, ram=1, st=1),
         mkcfg("Revolve", max_n=6, ram=2), mkcfg("Revolve", max_n=9, ram=3, uf=3, ub=1, wd=5, rd=2),
         mkcfg("HRevolve", max_n=7, ram=1, disk=1), mkcfg("HRevolve", max_n=8, ram=2, disk=1, uf=2, ub=1, wd=1, rd=3),
         mkcfg("HRevolve", max_n=7, ram=1, disk=2, uf=1, ub=1, wd=0, rd=0),
         mkcfg("DiskRevolve", max_n=8, ram=1), mkcfg("DiskRevolve", max_n=8, ram=1, uf=1, ub=1, wd=0, rd=0),
         mkcfg("PeriodicDiskRevolve", max_n=9, ram=1), mkcfg("PeriodicDiskRevolve", max_n=7, ram=2, uf=1, ub=1, wd=0, rd=0)]
    # near-siblings: configurations that differ from another one in exactly one parameter
    # (trajectory, storage, one cost) - a cache keyed on too little confuses exactly these
    p += [mkcfg("Multistage", max_n=23, ram=0, disk=3, traj=0), mkcfg("Multistage", max_n=23, ram=0, disk=3, traj=1),
          mkcfg("Multistage", max_n=13, ram=2, disk=2, traj=1), mkcfg("Multistage", max_n=7, ram=2, disk=2, traj=0),
          mkcfg("Multistage", max_n=7, ram=2, disk=2, traj=1),
          mkcfg("TwoLevel", N=12, passes=3, period=12, ram=2, st=0, traj=0),
          mkcfg("TwoLevel", N=12, passes=3, period=12, ram=2, st=0, traj=1),
          mkcfg("TwoLevel", N=12, passes=3, period=6, ram=2, st=0, traj=0),
          mkcfg("Mixed", max_n=9, ram=3, st=0), mkcfg("Mixed", max_n=10, ram=3, st=1), mkcfg("Mixed", max_n=10, ram=4, st=1),
          mkcfg("DiskRevolve", max_n=4, ram=1, uf=1, ub=3, wd=2, rd=2), mkcfg("DiskRevolve", max_n=4, ram=1, uf=1, ub=1, wd=2, rd=2),
          mkcfg("HRevolve", max_n=7, ram=1, disk=1, uf=1, ub=3, wd=2, rd=2),
          mkcfg("Revolve", max_n=6, ram=2, uf=1, ub=3, wd=2, rd=2)]
    # different table shapes (few steps / many units, many steps / few units, in between) and mixed
    # splits whose allocation depends on the trajectory
    p += [mkcfg("Revolve", max_n=10, ram=8), mkcfg("Revolve", max_n=30, ram=3), mkcfg("Revolve", max_n=30, ram=6),
          mkcfg("DiskRevolve", max_n=10, ram=6), mkcfg("DiskRevolve", max_n=24, ram=2), mkcfg("DiskRevolve", max_n=24, ram=4),
          mkcfg("Mixed", max_n=8, ram=7, st=1), mkcfg("Mixed", max_n=20, ram=2, st=1), mkcfg("Mixed", max_n=20, ram=5, st=1),
          mkcfg("Multistage", max_n=8, ram=0, disk=7), mkcfg("Multistage", max_n=20, ram=0, disk=2),
          mkcfg("Multistage", max_n=20, ram=0, disk=5),
          mkcfg("Multistage", max_n=10, ram=2, disk=3, traj=1), mkcfg("Multistage", max_n=12, ram=3, disk=3, traj=1),
          mkcfg("Multistage", max_n=10, ram=1, disk=4, traj=1), mkcfg("HRevolve", max_n=16, ram=2, disk=2),
          mkcfg("PeriodicDiskRevolve", max_n=20, ram=2),
          # large n: only a prefix of the stream is compared, but the planner tables are built in full
          mkcfg("Mixed", max_n=260, ram=3, st=1), mkcfg("Multistage", max_n=300, ram=0, disk=4),
          mkcfg("Multistage", max_n=12, ram=1, disk=2), mkcfg("Multistage", max_n=14, ram=2, disk=2),
          mkcfg("Revolve", max_n=120, ram=3), mkcfg("HRevolve", max_n=90, ram=2, disk=2)]
    if tier != "quick":
        p += [mkcfg("Multistage", max_n=20, ram=2, disk=2), mkcfg("Mixed", max_n=20, ram=3, st=0),
              mkcfg("Mixed", max_n=15, ram=4, st=1), mkcfg("HRevolve", max_n=12, ram=2, disk=2),
              mkcfg("TwoLevel", N=9, passes=3, period=4, ram=1, st=0), mkcfg("Revolve", max_n=12, ram=2),
              mkcfg("Multistage", max_n=9, ram=1, disk=1, traj=1), mkcfg("Mixed", max_n=8, ram=7, st=0)]
    return p


class Obj:
    """A driven object with the canonical finalisation policy of the reference runs."""

    def __init__(self, cfg):
        self.cfg = cfg
        self.d = Driver(cfg)
        self.finalized = cfg["cls"] not in ONLINE

    def next(self):
        from checkpoint_schedules import Forward
        if self.d.obj is None:
            return
        r = self.d.do_next()
        a = self.d.last_action
        if r == "act" and not self.finalized and isinstance(a, Forward):
            try:
                reached = a.n1 >= self.cfg["N"]
            except Exception:
                reached = False
            if reached:
                self.finalized = True
                self.d.do_finalize(self.cfg["N"])

    def obs(self):
        if self.d.obj is not None:
            self.d.do_obs()


def reference(cfg):
    """Runs in a fresh interpreter: bare next() calls (and the canonical finalize); no observer
    is read, nothing else is constructed."""
    o = Obj(dict(cfg, bare=True))
    for _ in range(NREF):
        o.next()
    return o.d.trace()


def call_helper(f, n, s):
    import checkpoint_schedules.mixed as mx
    import checkpoint_schedules.multistage as ms
    from .common import timed
    try:
        timed("c15-helper", lambda: _call_helper(f, n, s, mx, ms), 20)
    except Exception:
        pass


def _call_helper(f, n, s, mx, ms):
    if True:
        if f == 1:
            ms.optimal_steps_binomial(n, s)
        elif f == 2:
            mx.optimal_steps_mixed(n, s)
        elif f == 3:
            mx.mixed_step_memoization(n, s)
        else:
            mx.mixed_steps_tabulation(n, s)
            ms.n_advance(n, s)
            for s2 in (1, 2, 3):
                ms.allocate_snapshots(n + 1, 1, s2, write_weight=0.0, read_weight=1.0)
                ms.allocate_snapshots(n + 3, 2, s2, trajectory="revolve", delete_weight=1.0)


def replay(histories, cfgs, refbase):
    """All histories in this one interpreter, in order."""
    record.lib()
    from .common import timed, Hung
    out = []
    for h in histories:
        objs = []
        for op in h:
            try:        # a library call that never returns must not hang the check (C09/C17 report hangs)
                if op[0] == 1:
                    objs.append(timed("c15-build", lambda: Obj(cfgs[op[1] - 1]), 120))
                    objs[-1].ci = op[1] - 1
                elif op[0] == 2:
                    timed("c15-next", objs[op[1] - 1].next, 60)
                elif op[0] == 3:
                    timed("c15-obs", objs[op[1] - 1].obs, 60)
                else:
                    call_helper(op[1], op[2], op[3])
            except Hung as ex:
                raise fw.Machinery(f"the library does not return ({ex}); history-independence cannot be examined")
        for o in objs:
            t = o.d.trace()
            t["ref"] = o.ci
            t["hist"] = [list(x) for x in h]
            out.append(t)
    return out


def gen(ctx, ncfg, maxobj, depth, hn, nf, simulate=None, seed=0):
    env = {"PROC_NCFG": str(ncfg), "PROC_MAXOBJ": str(maxobj), "PROC_D": str(depth),
           "PROC_HELPER_N": str(hn), "PROC_NF": str(nf)}
    if simulate:
        r = tlc.run("Process", env=env, workers=1, timeout=900, simulate=f"num={simulate}",
                    args=["-depth", str(depth + 1), "-seed", str(seed + 7)])
    else:
        r = tlc.run("Process", env=env, workers=1, timeout=900)
    ctx.add_run("Process" + ("(simulate)" if simulate else ""), r)
    hs = [v[0] for v in tlc.marked(r)]
    if not hs:
        raise fw.Machinery(f"Process produced no histories: {r['error']}")
    seen, out = set(), []
    for h in hs:
        k = json.dumps(h)
        if k not in seen:
            seen.add(k)
            out.append(h)
    return out


def check(ctx):
    q = ctx.tier == "quick"
    cfgs = pool(ctx.tier)
    # reference streams, one fresh interpreter per configuration
    procs = []
    for c in cfgs:
        procs.append(subprocess.Popen([sys.executable, "-m", "harness.c15", json.dumps(c)], cwd=VERIF,
                                      env=dict(os.environ, PYTHONHASHSEED="0"),
                                      stdout=subprocess.PIPE, stderr=subprocess.PIPE, text=True))
    refs = []
    for p in procs:
        o, e = p.communicate(timeout=600)
        if p.returncode != 0:
            raise fw.Machinery("reference run failed: " + e[-800:])
        refs.append(json.loads(o))
    # histories chosen by TLC
    ex = gen(ctx, 2, 2, 5 if q else 6, 2, 2)
    sim = gen(ctx, len(cfgs), 3, 60, 14, 4, simulate=30 if q else 300, seed=ctx.seed)
    objs = replay(ex, cfgs, 0) + replay(sim, cfgs, 0)
    # observer reads must not matter: for EVERY configuration of the pool, all observers are read
    # before the first action and after every action
    obsh = []
    for i in range(len(cfgs)):
        obsh.append([[1, i + 1], [3, 1]] + [[2, 1], [3, 1]] * 40)
        obsh.append([[1, i + 1], [3, 1]] + [[2, 1]] * 40)
    objs += replay(obsh, cfgs, 0)
    # the same, over sub-pools of one class family each (objects of the same class meet often),
    # and exhaustively over two objects of ONE configuration (shared class-level state)
    fams = {}
    for i, c in enumerate(cfgs):
        fam = "Revolve*" if "Revolve" in c["cls"] else ("basic" if c["cls"] in record.ONLINE and c["cls"] != "TwoLevel" else c["cls"])
        fams.setdefault(fam, []).append(i)
    nsub = 0
    for fam, idx in sorted(fams.items()):
        sub = [cfgs[i] for i in idx]
        hs = gen(ctx, len(sub), 3, 40, 8, 2, simulate=12 if q else 100, seed=ctx.seed + len(fam))
        nsub += len(hs)
        for t in replay(hs, sub, 0):
            t["ref"] = idx[t["ref"]]
            objs.append(t)
    # every ordered pair (A, B) of one family: A is constructed, then B is constructed (and, in a
    # second history, partly iterated), and only then is A iterated - constructor-time shared state
    npair = 0
    for fam, idx in sorted(fams.items()):
        sub = [cfgs[i] for i in idx]
        hs = []
        for a in range(len(sub)):
            for b in range(len(sub)):
                if a != b:
                    hs.append([[1, a + 1], [1, b + 1]] + [[2, 1]] * 40)
                    if q and (a + b) % 3:
                        continue
                    hs.append([[1, a + 1], [1, b + 1]] + [[2, 2]] * 10 + [[2, 1]] * 40)
        npair += len(hs)
        for t in replay(hs, sub, 0):
            t["ref"] = idx[t["ref"]]
            objs.append(t)
    twins = [i for i, c in enumerate(cfgs) if c["cls"] == "TwoLevel"][:2] + [i for i, c in enumerate(cfgs) if c["cls"] == "Multistage"][:1]
    ntwin = 0
    for i in twins:
        hs = [h for h in gen(ctx, 1, 2, 9 if q else 11, 1, 1) if sum(1 for op in h if op[0] == 1) == 2]
        # drive both objects deep into their streams first, then the enumerated interleaving
        pre = [[1, 1], [1, 1]] + [[2, 1], [2, 2]] * (8 if cfgs[i]["cls"] == "TwoLevel" else 5)
        hs = [pre + [op for op in h if op[0] != 1] for h in hs[:: max(1, len(hs) // (150 if q else 1500))]]
        ntwin += len(hs)
        for t in replay(hs, [cfgs[i]], 0):
            t["ref"] = i
            objs.append(t)
    # shards: the references first, then object traces pointing back at them
    viols = []
    total = 0
    chunk = 4000
    nobj = 0
    for i in range(0, len(objs), chunk):
        part = objs[i:i + chunk]
        batch = [dict(r, grp=0) for r in refs]
        for j, t in enumerate(part):
            t = dict(t, grp=0, sibo=len(refs) + j - t["ref"])
            batch.append(t)
        verdicts = fw.validate(ctx, batch, module="TraceSibling", tag=f"p{i}")
        total += len(batch)
        for t, v in zip(batch[len(refs):], verdicts[len(refs):]):
            nobj += 1
            for clause, pos, later in v["viol"]:
                if clause.startswith("SIB."):
                    viols.append({"property": "C15", "clause": "C15.stream", "cls": t["cls"], "p": t["p"],
                                  "N": t["N"], "pos": pos,
                                  "what": f"{fw.describe(t)}: differs from the fresh-interpreter stream at "
                                          f"event {pos}; history {t['hist'][:12]}{'...' if len(t['hist']) > 12 else ''}",
                                  "trace": {"cls": t["cls"], "p": t["p"], "N": t["N"], "passes": t["passes"],
                                            "history": t["hist"], "ev": t["ev"]}})
    cov = {"traces_validated_against_impl": total, "object_streams_compared": nobj,
           "pool_configurations": len(cfgs), "histories_exhaustive": len(ex),
           "exhaustive_box": f"2 configurations, 2 objects, depth {5 if q else 6}, 2 helper calls",
           "histories_simulated": len(sim), "simulated_depth": 60,
           "histories_observer_reads_every_configuration": len(obsh),
           "histories_simulated_per_class_family": nsub, "histories_ordered_pairs_per_family": npair, "histories_two_objects_one_configuration": ntwin,
           "samples": [{"history": ex[len(ex) // 2]}, {"history": sim[0][:25]}],
           "exhaustive": True,
           "rule": "every object stream of every history compared with the reference stream of its "
                   "configuration recorded in a fresh interpreter"}
    return viols, cov, ["interleavings within one thread only (the library has no threads)",
                        "references are recorded by the same driver in a fresh interpreter"]


if __name__ == "__main__":
    sys.path.insert(0, VERIF)
    print(json.dumps(reference(json.loads(sys.argv[1]))))
