# Build/verify the framework from files on disk only (offline).
SPECS := CkptActions Executor SchedAPI TraceExec TraceClient TraceDomain TraceSibling TraceTwoLevel TraceMultistage TracePeriodic ExecFree GenBasic GenBasicFree GenBinomialCore GenBinomial TraceGenBinomial GenTwoLevel GenMixedCore GenMixed TraceGenMixed ExecRefines ExecOptCore ExecOpt OptTables HierTables GWForm CostOrder Client Process Domain DomainGen ActionUniverse ActionPairs ActionPairsGen PlanTable OpMachine TraceOps OpRefines OpOpt ExecIndCore GenTwoLevelCore TraceGenTwoLevel TraceGenBasic GenDiskCore GenDisk TraceGenDisk
PY := /venv/bin/python

.PHONY: setup sany manifest selftest clean apalache tlaps

setup: sany
	@mkdir -p out evidence
	@$(PY) -m selftest.run > out/selftest.log 2>&1; rc=$$?; tail -1 out/selftest.log; exit $$rc
	@echo "setup ok"

sany:
	@cd spec && for m in $(SPECS); do tla-sany $$m.tla >/dev/null 2>&1 || { echo "SANY failed: $$m"; tla-sany $$m.tla | tail -20; exit 1; }; done
	@echo "sany ok"

manifest:
	$(PY) -m harness.manifest

selftest:
	$(PY) -m selftest.run

clean:
	rm -rf out

# optional: unbounded-n inductive invariant of the executor core (Apalache, about 10 s)
tlaps:
	@mkdir -p out/tlaps && cp spec/ExecIndCore.tla spec/ExecIndProof.tla out/tlaps/ && cd out/tlaps && tlapm --toolbox 0 0 ExecIndProof.tla 2>&1 | tail -1

apalache:
	apalache-mc check --cinit=ConstInit --init=Init --inv=IndInv --length=0 --out-dir=out/apa spec/ExecInd.tla | grep "outcome"
	apalache-mc check --cinit=ConstInit --init=IndInit --inv=IndInv --length=1 --out-dir=out/apa spec/ExecInd.tla | grep "outcome"
