# Build/verify the framework from files on disk only (offline).
SPECS := CkptActions Executor SchedAPI TraceExec TraceClient TraceDomain TraceSibling TraceTwoLevel TraceMultistage TracePeriodic ExecFree GenBasic GenBasicFree GenBinomialCore GenBinomial TraceGenBinomial GenTwoLevel GenMixedCore GenMixed TraceGenMixed ExecRefines ExecOptCore ExecOpt OptTables HierTables GWForm CostOrder Client Process Domain DomainGen ActionUniverse ActionPairs ActionPairsGen PlanTable
PY := /venv/bin/python

.PHONY: setup sany manifest selftest clean

setup: sany
	@mkdir -p out evidence
	@$(PY) -m selftest.run > out/selftest.log 2>&1; rc=$$?; tail -1 out/selftest.log; exit $$rc
	@echo "setup ok"

sany:
	@cd spec && for m in $(SPECS); do tla-sany $$m.tla >/dev/null 2>&1 || { echo "SANY failed: $$m"; tla-sany $$m.tla | tail -20; exit 1; }; done
	@echo "sany ok"

manifest:
	$(PY) -m harness.manifest

selftest:
	$(PY) -m selftest.run

clean:
	rm -rf out
