#!/bin/bash
# Which lines of the library do the quick-tier checks execute?  (diagnostic for the boxes; coverage 7.x in /venv)
# The recorders are run serially in one process per check so that coverage sees every call; TLC runs as usual.
# usage: selftest/coverage.sh [checks...]     report: out/coverage/report.txt
cd /verif
D=/verif/out/coverage; rm -rf $D; mkdir -p $D/ev
cat > $D/.coveragerc <<EOF
[run]
branch = True
parallel = True
source = ${VERIF_REPO:-/repo}/checkpoint_schedules
data_file = $D/.coverage
EOF
cat > $D/sitecustomize.py <<'EOF'
import os
if os.environ.get("COVERAGE_PROCESS_START"):
    try:
        import coverage
        coverage.process_startup()
    except Exception:
        pass
EOF
cat > $D/serial_check.py <<'EOF'
import sys, os
sys.path.insert(0, '/verif')
os.environ.setdefault("PYTHONHASHSEED", "0")
from harness import record, oplayer, framework as fw, registry
_orig = record.record_many
record.record_many = lambda cfgs, procs=None: _orig(cfgs, procs=1)
oplayer._pmap = lambda f, cfgs: [f(c) for c in cfgs]
pid = sys.argv[1]
ctx = fw.Ctx(pid, "quick", 0)
try:
    viols, cov, ass = registry.CHECKS[pid](ctx)
    print(pid, "violations:", len(viols))
finally:
    ctx.cleanup()
EOF
export VERIF_EVIDENCE_DIR=$D/ev COVERAGE_PROCESS_START=$D/.coveragerc PYTHONPATH=$D
for id in ${@:-C01 C05 C06 C07 C09 C10 C13 C14 C15 C16 C17 C18 C19}; do
  timeout 6000 /venv/bin/python $D/serial_check.py $id 2>&1 | tail -1
done
/venv/bin/python -m coverage combine --rcfile=$D/.coveragerc 2>&1 | tail -1
/venv/bin/python -m coverage report --rcfile=$D/.coveragerc -m | tee $D/report.txt | tail -20
