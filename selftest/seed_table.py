#!/venv/bin/python
"""Fill in 'needs_to_manifest' of every seeded change and print the DESIGN.md table."""
import json
import os
import sys

VERIF = os.path.dirname(os.path.dirname(os.path.abspath(__file__)))
NEEDS = {
 "C01-a": ("twolevel_binomial.py: Move/Copy of the last load in a block chosen by storage type instead of checkpoint identity", "binomial_storage=DISK (the default) and a SECOND adjoint pass: pass 1 moved the periodic checkpoints away"),
 "C01-b": ("multistage.py: re-checkpoint in the reverse phase written to the storage of the checkpoint just loaded (stale variable)", "mixed RAM/disk split, n >= 6, re-written unit of a different storage than the one below it: Multistage(6,1,1)"),
 "C02-a": ("basic_schedules.py: SingleDisk(move_data=True) loses the break after its EndReverse", "move_data=True and a next() AFTER the single permitted EndReverse (yields EndReverse for ever)"),
 "C02-b": ("hrevolve_sequences/hrevolve.py: second of two identical tests in the l==1 base case compares with wvect[K]", "HRevolve, cost vector with exactly one of wd, rd zero, a two-step block on a disk checkpoint: HRevolve(4,1,1,wd=0,rd=1) raises instead of EndReverse"),
 "C03-a": ("multistage.py allocate_snapshots: RAM given to every unit tied with the threshold weight", "mixed split with equal weights either side of the cut: Multistage(12,2,2) holds 3 RAM checkpoints"),
 "C03-b": ("twolevel_binomial.py: binomial_snapshots clamped to >= 1", "binomial_snapshots = 0, period >= 3, a period with >= 3 steps"),
 "C04-a": ("twolevel_binomial.py: Move vs Copy by storage type", "binomial_storage=DISK: periodic checkpoints are gone at the first EndReverse"),
 "C04-b": ("hrevolve.py + hrevolve_sequences/hrevolve.py, two cooperating sites: RAM staging test differs from the read test; bookkeeping set dropped", "HRevolve with rd == 0 < wd, >= 1 disk unit, a two-step tail: HRevolve(4,1,1,wd=1,rd=0) leaves RAM {0}"),
 "C05-a": ("multistage.py n_advance ('maximum'): look-alike beta variable in a threshold", "n in 72..75 with exactly 5 units (113..118 with 6, ...): 280 forward steps instead of 276"),
 "C05-b": ("hrevolve_sequences/revolve.py: get_opt_0_table called with (ub, uf)", "Revolve with uf > 2*ub: Revolve(5,2,uf=3,ub=1) 12 steps instead of 11"),
 "C06-a": ("mixed.py: 'Knuth-style' upper bound on the first interval in both planners", "n >= 118 with 10 <= s <= 18: Mixed(118,10) 294 steps instead of 293"),
 "C06-b": ("mixed.py __init__: snapshots -= max_n - 1 instead of clamping", "more units than steps, n <= s <= 2n-3: Mixed(5,5) 14 steps instead of 5"),
 "C07-a": ("hrevolve_sequences/hrevolve.py get_hopt_table: border uses rvect[k]", "exactly 1 RAM unit, >= 1 disk unit, 0 < rd < uf: HRevolve(6,1,1,uf=2,wd=1,rd=1) cost 38 vs 37"),
 "C07-b": ("hrevolve_sequences/revolve.py: opt_0 table memoised with a key that omits ub", "two constructions in ONE process with equal n, RAM, uf and different ub, the larger ub first: DiskRevolve(4,1,ub=3) then DiskRevolve(4,1,ub=1)"),
 "C08-a": ("twolevel_binomial.py: self._n not updated after Copy of a binomial checkpoint", "a binomial checkpoint re-read with Copy: block of >= binomial_snapshots+4 steps: TwoLevel(5,1) N=7"),
 "C08-b": ("twolevel_binomial.py: self._n updated only after the yield of a checkpointing Forward", "period >= 3, binomial_snapshots >= 1, block >= 3 steps; visible only between that Forward and the next action"),
 "C09-a": ("twolevel_binomial.py: Move vs Copy by storage type", "binomial_storage=DISK and k >= 2 passes: pass 2 is textually equal but not executable"),
 "C09-b": ("hrevolve.py: _exhausted set in the Discard branch only", "a sequence that does not end with a Discard: max_n = 1, or H-Revolve costs that put the step-0 checkpoint on disk"),
 "C10-a": ("schedule.py finalize: `_max_n < n` instead of `!= n` once max_n is known", "finalize(k) with k == current n < max_n on an offline (or already finalised) schedule is silently accepted"),
 "C10-b": ("twolevel_binomial.py: live sanity check after the Forward yield assumes the end lies in the last period", "TwoLevel, >= 2 Forwards, then finalize(n) with n <= (k-1)*period: accepted, but next() raises instead of EndForward"),
 "C11-a": ("mixed.py: Copy of a re-used checkpoint names StorageType.DISK literally", "storage=RAM and a checkpoint that is re-used (Copy): Mixed(4,1,RAM)"),
 "C11-b": ("hrevolve.py HRevolve.__init__: 'excess' clamp applied only to the counts uses_storage_type reads", "snapshots_in_ram == max_n-2, >= 1 disk unit, wd+rd < uf: HRevolve(6,4,1,uf=3,wd=1,rd=1)"),
 "C12-a": ("twolevel_binomial.py: last Reverse of a pass keeps its dependencies", "second adjoint pass starts loading while WORK still holds step 0's dependencies"),
 "C12-b": ("hrevolve_sequences/hrevolve.py: duplicated Read in the l==1 case", "HRevolve, disk checkpoint guarding a two-step segment, rd > 0: Copy then Move of the same checkpoint"),
 "C13-a": ("twolevel_binomial.py: first advance of a period cached from the first (possibly partial) period", "n > period, n % period >= 2, few snapshots relative to the period: TwoLevel(5,1) N=7"),
 "C13-b": ("multistage.py n_advance ('maximum'): wrong beta in the third threshold", "block lengths 35, 56, 84 with 3 units (period 35, 2 snapshots): 141 steps instead of 140"),
 "C14-a": ("multistage.py allocate_snapshots: Move charged delete_weight instead of read_weight", "mixed split, 'maximum' trajectory, particular (n,ram,disk): Multistage(7,1,1) 5 DISK accesses instead of 4 (0.2% of splits)"),
 "C14-b": ("multistage.py: allocation cached under a key that omits the trajectory", "two constructions in ONE process, same numbers, different trajectory"),
 "C15-a": ("mixed.py + multistage.py: n_advance cached by (n, s), trajectory keyword ignored", "two trajectories in one process sharing a sub-problem where they disagree: Multistage(23,0,3)"),
 "C15-b": ("twolevel_binomial.py: class-level mutable checkpoint stack", "two TwoLevel objects in their reverse phases at the same time, or one abandoned mid-block"),
 "C16-a": ("mixed.py tabulation: search pruned by a false monotonicity claim", "(n, s) = (17, 3) and 18 more pairs with s in 3..5, n <= 40"),
 "C16-b": ("mixed.py: process-wide cache of the plan table with an off-by-one reuse test", "two Mixed schedules on the tabulated path in one process, the later with 1 + the largest snapshot count so far"),
 "C17-a": ("schedule.py: `if max_n and max_n < 1` lets max_n == 0 through", "exactly max_n == 0 on MixedCheckpointSchedule: emits EndForward, Reverse(0,-1) then IndexError"),
 "C17-b": ("hrevolve_sequences/revolve.py: table rows beyond lmax not filled", "more RAM units than steps: DiskRevolve(3,3), Revolve(5,5) raise at construction"),
 "C18-a": ("schedule.py, two cooperating sites: isinstance-based __eq__ and `class Move(Copy)`", "Copy(n,s,d) == Move(n,s,d) is True"),
 "C18-b": ("basic_schedules.py: SingleMemory `n1 = sys.maxsize` (absolute)", "two or more next() before finalize: Forward(sys.maxsize, sys.maxsize, ...)"),
 "C19-a": ("hrevolve.py PeriodicDiskRevolve.__init__: (ub, uf) swapped in the call", "uf != ub with the two ratios on different sides of a binomial threshold: Periodic(6,3,uf=1,ub=2,wd=4,rd=4)"),
 "C19-b": ("hrevolve_sequences/periodic_disk_revolve.py: sweep loop compares with mmax (= mx+1)", "(n-1) mod m == 1 and n-1 > m: the last due disk checkpoint is skipped: Periodic(14,2)"),

 # ---- round 2 (ids -c, -d): agents were told the round-1 ideas and asked for different, more specific ones
 "C01-c": ("hrevolve_sequences/hrevolve.py l==1 base case: 'tidied' guard writes a disk checkpoint that already exists", "HRevolve with rd == 0 reaching the disk-level two-step base case: HRevolve(7,1,1,wd=2,rd=0) overwrites disk checkpoint 0"),
 "C01-d": ("basic_schedules.py SingleDisk: n1 = self._n instead of max_n - r", "move_data=False and a SECOND adjoint pass: Copy(-1, DISK, WORK)"),
 "C02-c": ("twolevel_binomial.py: unit count after a reload ignores the units still held", "a binomial checkpoint reloaded with every unit in use and >= 3 steps to go: TwoLevel(9,1) N=9 ('maximum'), TwoLevel(7,1,'revolve')"),
 "C02-d": ("basic_schedules.py SingleDisk: n1 = self._n", "move_data=False, second pass (same change as C01-d, found independently)"),
 "C03-c": ("hrevolve_sequences/hrevolve.py: RAM staging test compares with wvect[K]+rvect[K], read test unchanged", "rd == 0 < wd and particular n: HRevolve(13,1,2,wd=2,rd=0) holds 2 RAM checkpoints with budget 1"),
 "C03-d": ("multistage.py allocate_snapshots: copy/paste slip, disk clamp takes the RAM count", "mixed split with ram > disk >= 1: Multistage(5,2,1)"),
 "C04-c": ("multistage.py: delete() helper returns the storage of the slot below", "mixed RAM/disk split: Multistage(6,1,1) Moves name the wrong storage, checkpoints stay"),
 "C04-d": ("mixed.py: dependency checkpoints written to StorageType.DISK literally", "storage=RAM: Mixed(2,1,RAM) leaves (DISK, 0)"),
 "C05-c": ("hrevolve_sequences/revolve.py get_opt_0_table: integer floor of the one-slot row", "non-integer uf <= 0.9: Revolve(10,2,uf=0.5) 31 steps instead of 30"),
 "C05-d": ("hrevolve_sequences/revolve.py revolve(): j*params['up'] instead of j*params['uf']", "uf < 0.5: Revolve(5,2,uf=0.4,ub=2) 12 steps instead of 11"),
 "C06-c": ("mixed.py both planners: tie-break weight 1e-2*i leaks into the cost comparison", "n >= 608 with 26 <= s <= 40: Mixed(608,27) 1426 steps instead of 1425"),
 "C06-d": ("mixed.py memoised planner: one-unit closed form used for a one-step remainder with two units", "exactly n = (s+1)(s+2)/2 - 2: Mixed(4,2) 7 steps instead of 6"),
 "C07-c": ("hrevolve_sequences/revolve.py get_opt_0_table: integer floor for non-integer uf", "non-integer uf only: Revolve(9,3,uf=0.5), DiskRevolve(6,1,uf=0.5,wd=0.25,rd=0.25)"),
 "C07-d": ("hrevolve_sequences/hrevolve.py l==1 leaf: second guard compares with wvect[K]", "wd == 0 < rd: HRevolve(4,1,1,uf=3,wd=0,rd=1) cost 30 vs 29"),
 "C08-c": ("basic_schedules.py SingleDisk: r computed from a stale local of the forward loop", "finalize called late (extra Forwards requested first): r exceeds max_n"),
 "C08-d": ("schedule.py finalize: mutate before validate", "a refused premature finalize(k) has already set max_n"),
 "C09-c": ("twolevel_binomial.py: period start kept across passes, reset assumes a full last period", ">= 2 passes and max_n % period != 0: TwoLevel(3,2) N=5"),
 "C09-d": ("schedule.py __iter__ returns self._iterator()", "iter(s) / enumerate(s) makes is_running True before any action is requested"),
 "C10-c": ("schedule.py finalize: `or self.is_exhausted` added to the rejection", "finalize(max_n) after the last action of a one-step offline schedule or of NoneCheckpointSchedule is rejected"),
 "C10-d": ("twolevel_binomial.py: self._n assigned after the yield of a binomial Move", "finalize(max_n) accepted at exactly one moment per pass: right after the Move following Reverse(max_n, max_n-1)"),
 "C11-c": ("twolevel_binomial.py uses_storage_type: interval length from self._n", "binomial storage RAM, period >= 3, queried in the reverse sweep while n <= 2"),
 "C11-d": ("hrevolve.py uses_storage_type(DISK) for unlimited disk: snapshots_in_ram < max_n - 1", "PeriodicDiskRevolve, RAM units >= max_n - 1, fractional costs with wd+rd < uf"),
 "C12-c": ("twolevel_binomial.py: re-advance measured from the period start", "period >= 5, 1 <= snapshots <= period-3: Forward overshoots the adjoint"),
 "C12-d": ("periodic_disk_revolve.py: `if mx == 1: continue` skips the replay of one-step periods", "(wd+rd)/uf < 1 strictly, max_n >= 4: two Moves in a row"),
 "C13-c": ("twolevel_binomial.py: unit count after a reload", "block length >= 9 ('maximum') / 7 ('revolve') with 1 unit: ValueError mid pass"),
 "C13-d": ("twolevel_binomial.py: live sanity check after the forward loop", "finalize strictly before the start of the last emitted period: RuntimeError instead of EndForward"),
 "C14-c": ("multistage.py allocate_snapshots: every Forward charged in the dry run", "mixed split, 'maximum', particular (n,ram,disk): Multistage(11,2,1); 0.1% of splits, none with n <= 10"),
 "C14-d": ("multistage.py allocate_snapshots: RAM slice [:snapshots - snapshots_on_disk]", "more units than steps: Multistage(5,2,3)"),
 "C15-c": ("multistage.py: lazy allocation; uses_storage_type forgets the trajectory keyword", "mixed split, 'revolve', an observer read BEFORE the first action: Multistage(10,2,3,revolve)"),
 "C15-d": ("hrevolve_sequences/revolve.py: module-level cost table, array shape mistaken for the filled region", "three constructions with non-nested shapes: Revolve(10,8), Revolve(40,3), then Revolve(40,6)"),
 "C16-c": ("mixed.py memoised planner: range(3, n)", "the diagonal n = s+2: Mixed(4,2) differs between the planners"),
 "C16-d": ("mixed.py _iterator, tabulated branch only: reversed step counted twice in keep-or-delete", "a restart checkpoint revisited with units+2 steps left: Mixed(4,1) Copy vs Move"),
 "C17-c": ("hrevolve_sequences/hrevolve.py l==1 leaf: branches of the second test swapped", "1 RAM unit, >= 1 disk unit, n in 8,9,11..14 with default costs: RuntimeError instead of EndReverse"),
 "C17-d": ("twolevel_binomial.py: n1s from self._n (stale after the first sweep)", "any second adjoint pass with max_n >= 2"),
 "C18-c": ("schedule.py Forward.__contains__: sys.maxsize treated as infinity", "Forward(0, sys.maxsize, ...): `n1 in a` is True"),
 "C18-d": ("schedule.py Reverse: steps kept as a one-shot iterator", "a second traversal of the same Reverse object is empty"),
 "C19-c": ("basic_functions.py beta(x, 0) returns 0", "(wd+rd)/uf < 1: period cm+1 instead of 1"),
 "C19-d": ("periodic_disk_revolve.py: cost table built with params['up']", "uf > 2, >= 2 RAM units, segment longer than the RAM count: Periodic(5,2,uf=3,wd=6,rd=6)"),
 # ---- round 3 (ids R3-<slot>-a/b): agents got all 19 properties and one region of the code base each
 "R3-C01-a": ("hrevolve_sequences/basic_functions.py argmin: stops at the first entry above the running minimum (false convexity assumption)", "HRevolve with a disk level, few RAM units, wd+rd well above uf, particular n: HRevolve(13,1,2,wd=5,rd=5) cost 76 vs 75 [C07]"),
 "R3-C01-b": ("basic_functions.py beta rewritten incrementally: beta(x,0) = x+1", "wd+rd < uf: period cm+1 instead of 1 [C19]"),
 "R3-C02-a": ("revolve.py get_opt_0_table: row aliasing off by one (m >= lmax)", "DiskRevolve with RAM units >= n-1 and 0 < wd+rd < uf: DiskRevolve(5,4,uf=5,wd=1,rd=1) cost 52 vs 50 [C07]"),
 "R3-C02-b": ("disk_revolve.py builder: fast path `wd+rd >= l*uf` goes memory-only", "expensive disk, 1 RAM unit, n large enough: DiskRevolve(13,1,wd=6,rd=6) cost 104 vs 80 [C07]"),
 "R3-C03-a": ("hrevolve.py: last-read table filled in __init__ into a CLASS-level dict", "a second Revolve-family constructor between A's construction and A's iteration [C15]"),
 "R3-C03-b": ("hrevolve.py DiskRevolve.__init__: 'fits in memory' shortcut off by one", "max_n == RAM units + 2 with a cheap disk: DiskRevolve(3,1,wd=0,rd=0) cost 9 vs 8 [C07]"),
 "R3-C04-a": ("schedule.py finalize: branches merged, mutate before validate", "a refused finalize(k) on an online schedule leaves max_n = k [C10]"),
 "R3-C04-b": ("schedule.py __eq__: NotImplemented style without the same-class test", "Copy(3,DISK,WORK) == Move(3,DISK,WORK), EndForward() == EndReverse() [C18]"),
 "R3-C05-a": ("mixed.py _iterator: Copy of a re-used checkpoint names StorageType.DISK", "storage=RAM with a re-used restart checkpoint: Mixed(4,1,RAM) [C01]"),
 "R3-C05-b": ("mixed.py __init__: storage validated with isinstance(storage, StorageType)", "storage=WORK or NONE is accepted and yields a complete stream [C17]"),
 "R3-C06-a": ("multistage.py _iterator: storage look-up moved into the Copy branch only", "mixed split with two consecutive Moves of adjacent positions: Multistage(4,1,2) [C01]"),
 "R3-C06-b": ("multistage.py optimal_extra_steps replaced by a closed form with an off-by-one repetition number", "n == C(s+t,s)+1: optimal_steps_binomial(7,2) returns 17 instead of 18 [C05]"),
 "R3-C07-a": ("twolevel_binomial.py: reverse loop iterates one period per Forward emitted", "finalisation that overshoots by a whole period (late finalize): TwoLevel(3,1), two Forwards, finalize(3) [C02]"),
 "R3-C07-b": ("twolevel_binomial.py: class-level checkpoint stack", "two TwoLevel objects, one standing mid-period [C15]"),
 "R3-C08-a": ("basic_schedules.py SingleDisk: reverse loop driven by the forward cursor", "move_data=False, second pass emits a bare EndReverse [C09]"),
 "R3-C08-b": ("hrevolve.py get_hopt_table: border uses rvect[k]/wvect[k]", "1 RAM unit, cheap disk read, particular n: HRevolve(6,1,1,wd=1,rd=0) cost 22 vs 21 [C07]"),

 # ---- round 4 (ids R4-<slot>-a/b): agents were told what a dense small-input checker does and asked for what it would miss
 "R4-C13-a": ("mixed.py memoised planner: downward scan that stops after two increases (false convexity)", "first wrong sub-problem (78, 8): Mixed(78,8) 194 steps instead of 193 [C06]"),
 "R4-C13-b": ("twolevel_binomial.py: `cp_n is self._max_n - self._r - 1`", "any TwoLevel finalised at n >= 258 (CPython caches small ints up to 256) [C13]"),
 "R4-C14-a": ("basic_functions.py beta as an incremental FLOAT product", "period off by one for cost ratios of 500-10000 and n above the period: Periodic(300,1,wd=5000,rd=5000) [C19]"),
 "R4-C14-b": ("disk_revolve.py get_opt_inf_table: scan stops at the first increase", "(wd+rd)/uf >= 40 and n >= 60: DiskRevolve(62,1,wd=50,rd=50) cost 925 vs 920 [C07]"),
 "R4-C15-a": ("basic_schedules.py SingleDisk: passes started by a recursive `yield from`", "RecursionError in adjoint pass 995 [C09]"),
 "R4-C15-b": ("twolevel_binomial.py: `self._r is not self._max_n`", "finalisation point >= 257 [C02]"),
 "R4-C16-a": ("multistage.py allocate_snapshots: module-level cache whose key omits the weights", "an earlier direct call allocate_snapshots(12,1,2,write_weight=0.0,...) poisons Multistage(12,1,2) [C14]"),
 "R4-C16-b": ("mixed.py: memo replaced by a shared table grown with np.resize", "any small use, then any n >= 256 in the same process [C16]"),
 "R4-C17-a": ("revolve.py cm==1 branch: loop rewritten, numpy ints leak into Sequence.shift", "numpy-integer max_n >= 6: Revolve(np.int64(6), 2) raises IndexError [C17]"),
 "R4-C17-b": ("schedule.py __iter__: `yield from self._iterator()`", "leaving a for loop with break closes the schedule's generator [C09]"),
 "R4-C18-a": ("mixed.py tabulation table allocated as int32", "n >= 65536 [C16]"),
 "R4-C18-b": ("mixed.py memoised planner: search order reversed, recursion depth ~2n", "fresh interpreter, n >= ~510: Mixed(700,3) raises RecursionError at the first next() [C17]"),

 # ---- round 5 (ids R5-<slot>-a/b): a control round - all 104 earlier ideas listed as taken, inputs limited to <= ~40 steps
 "R5-C01-a": ("multistage.py allocate_snapshots: mutable default list accumulates weights over calls", "two mixed-split objects with a different parameter set built in between [C15]"),
 "R5-C01-b": ("multistage.py allocate_snapshots dry run: stack index decremented before the read is charged", "mixed split where the shifted ranking changes the RAM set: Multistage(6,1,1,'maximum') 5 DISK accesses instead of 3 [C14]"),
 "R5-C02-a": ("mixed.py is_exhausted: `or self._r == self._max_n`", "True between the last Reverse and EndReverse [C09]"),
 "R5-C02-b": ("mixed.py uses_storage_type from a dict without WORK/NONE", "uses_storage_type(WORK) raises KeyError [C11]"),
 "R5-C03-a": ("twolevel_binomial.py: first adjoint pass recorded and replayed", "n and r frozen from the second pass on [C08]"),
 "R5-C03-b": ("twolevel_binomial.py: advance after a reload cached by distance only", "binomial_snapshots=1, period >= 7 ('revolve'): 19 steps instead of 18 [C13]"),
 "R5-C04-a": ("hrevolve.py HRevolve.__init__: `snapshots_on_disk or max_n`", "snapshots_on_disk == 0 is planned with max_n disk slots: HRevolve(12,1,0) holds DISK checkpoints [C03]"),
 "R5-C04-b": ("hrevolve.py HRevolve.__init__: `wc = rc = [0, 0]` aliases the two cost vectors", "wd != rd: HRevolve(12,1,3,wd=10,rd=0) costs more than with 0 disk units [C07]"),
 "R5-C05-a": ("hrevolve_sequences/hrevolve.py get_hopt_table: border skip simplified to `m == 0`", "one RAM unit, cheap disk reads: HRevolve(3,1,1,uf=3,wd=1,rd=1) cost 21 vs 20 [C07]"),
 "R5-C05-b": ("hrevolve_sequences/hrevolve.py: m = 0 folded into the main loop (index -1 wraps)", "scarce disk: HRevolve(6,1,0) raises KeyError at construction [C17]"),
 "R5-C06-a": ("periodic_disk_revolve.py: `wd + rd / uf`", "uf != 1 with the wrong ratio across a binomial threshold: Periodic(20,1,uf=2,wd=2,rd=2) [C19]"),
 "R5-C06-b": ("disk_revolve.py: split found by exact float equality after re-associating the sum", "decimal costs that are inexact in binary: DiskRevolve(12,1,wd=0.1,rd=0.2) raises at construction [C17]"),
 "R5-C07-a": ("basic_schedules.py SingleDisk: is_exhausted computed from r", "move_data=True: True one action early [C09]"),
 "R5-C08-a": ("hrevolve.py: uses_storage_type(DISK) scans the operation list, which _iterator clears before the final EndReverse", "an observer read AFTER exhaustion: DiskRevolve(12,1) reports DISK unused [C11]"),
 "R5-C08-b": ("hrevolve_sequences/hrevolve.py hrevolve_recurse l==1 leaf writes to level K", "one RAM unit, cheap disk, particular n: HRevolve(7,1,1,wd=1,rd=1) holds 2 DISK checkpoints with budget 1 [C03]"),
 "R5-C07-b": ("schedule.py finalize: n < 1 check moved inside the max_n-unknown branch", "finalize(0) on a finalised/offline schedule raises RuntimeError instead of ValueError [C10]"),
 # ---- round 6 (ids R6-<slot>-a/b): second control round - all 120 earlier ideas listed as taken
 "R6-C09-a": ("hrevolve.py _iterator: `_snapshots_on_disk` re-used as a free-slot counter", "finite disk that fills up, observer read at that moment: HRevolve(6,1,1) uses_storage_type(DISK) False after action 0 [C11]"),
 "R6-C09-b": ("hrevolve.py uses_storage_type: one boolean expression without parentheses", "unlimited-disk class queried with WORK/NONE: TypeError (None > 0) [C11]"),
 "R6-C10-a": ("multistage.py __init__: joint clamp of disk units before the RAM clamp", "snapshots_in_ram >= max_n with disk >= 1: Multistage(3,3,2) 6 forward steps, stream differs from the (0,5) split [C14]"),
 "R6-C10-b": ("hrevolve_sequences/hrevolve.py hrevolve_aux: left sub-problem given cvect[K] disk slots instead of cmem", ">= 2 disk units, nested disk checkpoints: HRevolve(25,1,2,wd=1,rd=1) holds 3 [C03]"),
 "R6-C11-a": ("mixed.py tabulation: argmin + walk right over equal values", "numba path, non-contiguous minimisers: Mixed(12,3) step 5 vs 7 [C16]"),
 "R6-C11-b": ("mixed.py tabulation: argument check `s < 1`", "numba path, max_n == 1: ValueError instead of a stream [C16]"),
 "R6-C12-a": ("schedule.py CheckpointAction: __hash__ added, __eq__ fast path `hash(self) == hash(other) or ...`", "Forward ending at sys.maxsize equals Forward ending at 3 (hash modulo 2**61-1) [C18]"),
 "R6-C12-b": ("schedule.py: shared _StepRange mixin iterates ascending", "Reverse of >= 2 steps (SingleMemory): list(rev) ascending [C18]"),
 "R6-C13-a": ("periodic_disk_revolve.py mxrr_close_formula: search starts at t = 1", "wd + rd < uf: Periodic(12,1,uf=3,wd=1,rd=1) period 2 instead of 1 [C19]"),
 "R6-C13-b": ("periodic_disk_revolve.py: I/O ratio rounded to whole steps", "non-integer ratio that rounds up onto beta(cm+1,t): Periodic(15,1,uf=2,wd=5,rd=6) [C19]"),
 "R6-C15-a": ("schedule.py is_running: `self._n > 0 or self._r > 0`", "step-0 checkpoint loaded while r == 0: SingleDisk(copy) after EndReverse, TwoLevel with max_n <= period [C09]"),
 "R6-C15-b": ("twolevel_binomial.py: reload skipped `if self._n != cp_n`", "period 1, finalize(2), second pass: Copy(1, DISK, WORK) missing [C09]"),
 "R6-C16-a": ("hrevolve.py: operation list from an lru_cache'd helper + `_schedule.clear()` before EndReverse", "two HRevolve objects with equal parameters in one process: the second emits only EndReverse [C15]"),
 "R6-C16-b": ("hrevolve.py __init__: asserts replaced by `ram + (disk or 0) < 1`", "HRevolve(2,0,d>=1) accepted, emits a stream with a RAM write against budget 0 [C17]"),
 "R6-C14-a": ("twolevel_binomial.py: Move(cp_n, ...) became Move(n0, ...) (look-alike local)", "two binomial checkpoints at consecutive steps in one block: period >= 4, binomial_snapshots >= 2: TwoLevel(4,2,RAM) n=8 leaves RAM {1,5} [C04]"),
 "R6-C14-b": ("schedule.py __iter__: an exhausted running schedule drops its generator 'so it can be iterated again'", "a second for-loop / iter() after the final EndReverse: Multistage(6,1,1) emits actions again [C02]"),
 # ---- round 7 (ids R7-<slot>-a/b): properties and files with the fewest seeds so far
 "R7-C02-a": ("hrevolve.py _iterator: Reverse clears its dependencies only if the next load is from memory", "HRevolve with cheap disk (wd+rd <= uf or rd == 0): a disk load arrives while dependencies are held [C12]"),
 "R7-C02-b": ("hrevolve.py _iterator: last-read pre-scan replaced by step-keyed bookkeeping that Discard wipes", "DiskRevolve/Periodic with wd+rd < uf: DiskRevolve(3,1,uf=3,wd=1,rd=1) leaves DISK {0} [C04]"),
 "R7-C03-a": ("basic_schedules.py SingleMemory: Reverse(max_n, 0, True) 'to free memory'", "second adjoint pass finds no dependency data [C01]"),
 "R7-C03-b": ("basic_schedules.py SingleDisk(copy): `steps = reversed(range(max_n))` assigned once above the pass loop", "second and later passes emit only EndReverse [C02]"),
 "R7-C04-a": ("hrevolve.py Revolve.__init__: slots clamped to steps - 1 on the already decremented step count", "snapshots_in_ram >= max_n - 1 >= 2: Revolve(3,2) 6 forward steps vs 5 [C05]"),
 "R7-C04-b": ("mixed.py __init__: one unit reserved 'for the working copy' when storage=RAM", "storage=RAM, 2 <= s <= n-1: Mixed(3,2,RAM) 5 steps vs 3 [C06]"),
 "R7-C05-a": ("hrevolve.py _iterator: fast path for max_n == 1 forgets `self._r = 1`", "any Revolve-family class with max_n == 1: r reads 0 after the Reverse [C08]"),
 "R7-C05-b": ("schedule.py: `n` property clamps to max_n, finalize no longer rewinds _n", "finalize(n) repeated after a successful finalize beyond... TwoLevel(3,1): next, next, finalize(5), finalize(5) raises [C10]"),
 "R7-C07-a": ("twolevel_binomial.py: reverse loop over `int(max_n / period + 0.5)` periods", "period >= 3 and 0 < n mod period < period/2: TwoLevel(3,1) finalised at 7 recomputes 13 steps vs 11 [C13]"),
 "R7-C07-b": ("multistage.py allocate_snapshots: weights zipped from (reads, reads, deletes)", "mixed split, 'maximum' trajectory, ~19 of 3600 splits for n <= 30: Multistage(7,1,1) 5 DISK accesses vs 4 [C14]"),
 "R7-C08-a": ("disk_revolve.py builder: the two candidate lists merged, `wd` term lost", "default costs, 9 of 200 (n, ram) pairs: DiskRevolve(8,2) cost 31 vs 30 [C07]"),
 "R7-C08-b": ("periodic_disk_revolve.py: unbounded while replaced by `for t in range(ceil(ratio))`", "wd + rd == uf exactly: Periodic(7,1,uf=4,wd=2,rd=2) period 1 instead of cm+1 [C19]"),
 "R7-C01-a": ("hrevolve.py _iterator: last-read table keyed by (operation name, step), snapshots a dict step -> storage", "HRevolve that writes to DISK and continues from a RAM checkpoint of the same step: HRevolve(6,1,1) leaves DISK step 0 [C04]"),
 "R7-C01-b": ("basic_schedules.py SingleDisk: Reverse(n1, n0, self._r < self._max_n)", "copy mode, second pass: the first Copy loads while step 0's dependencies are still held [C12]"),
 "R7-C06-a": ("disk_revolve.py: replayed segment built with revolve(jmin - 1, cm + 1)", "wd+rd >= ~2 uf and disk checkpoints >= ram+2 apart: DiskRevolve(8,1) holds 2 RAM checkpoints [C03]"),
 "R7-C06-b": ("hrevolve_sequences/hrevolve.py hrevolve_aux: left part only inserted `if jmin > 1`", "disk I/O cheaper than a forward step: HRevolve(3,1,1,wd=0.25,rd=0.25) EndReverse at r=2 [C02]"),
 # ---- round 8 (ids R8-<slot>-a/b): brief = must need a RARE PARAMETER COINCIDENCE (exact equalities, particular n, inexact floats)
 "R8-C14-a": ("mixed.py: scan over the first block split in two loops, candidate i = 2s+1 never evaluated (also in optimal_steps_mixed)", "n = C(s+3,2) - 2: Mixed(8,2), (13,3), (19,4), (26,5): one forward step above the optimum [C06]"),
 "R8-C14-b": ("mixed.py memoised planner: balanced split evaluated first as incumbent, smaller i of equal cost replaces it", "several optimal first intervals, the largest equal to (n-s)//2: (17,5) tabulated 6 vs memoised 5; none for n <= 16 [C16]"),
 "R8-C15-a": ("hrevolve_sequences/hrevolve.py get_hopt_table: min() rewritten as if a < b / elif b < a, the equal case forgotten (entry stays inf)", "an exact disk/memory tie: wd + rd == uf (or zero costs), ram >= 2, disk >= 2: HRevolve(7,2,2,wd=.5,rd=.5) 24.5 vs 24 [C07]"),
 "R8-C15-b": ("hrevolve_sequences/hrevolve.py hrevolve(): levels sorted by cost 'defensively'", "wd == rd == 0 and disk < ram: RAM and DISK swap: HRevolve(10,3,1,wd=0,rd=0) holds 3 DISK checkpoints [C03]"),
 "R8-C16-a": ("disk_revolve.py: 'disk not worth it' fast exit reads the tables at l - 1", "n - 1 the shortest chain for which disk pays: one n per (RAM, cost vector): (6,1), (11,2), (14,3) at default costs [C07]"),
 "R8-C16-b": ("disk_revolve.py builder: memory-vs-disk test on round()ed values", "non-integer costs, disk winning by exactly 0.5 against an even makespan: uf=1, wd=0.5, rd=2, RAM=2, n=8, 11, 14 [C07]"),
 "R8-C17-a": ("schedule.py __repr__: sys.maxsize offset computed with % instead of -", "an argument >= 2*sys.maxsize: the second Forward of SingleMemory/None before finalize [C18]"),
 "R8-C17-b": ("schedule.py Forward/Reverse __contains__: isinstance(step, int) guard", "membership asked with a numpy integer (or Fraction / integral float) equal to a covered step [C18]"),
 "R8-C18-a": ("multistage.py: new guard 'no checkpoint is loaded more than t times' with t computed from n - 1", "max_n == C(s+t, s) + 1, s >= 2, t >= 2: 20 of 1890 (n, s) pairs for n <= 60: RuntimeError mid-stream [C17]"),
 "R8-C18-b": ("hrevolve.py PeriodicDiskRevolve.uses_storage_type: period re-derived in product form", "(wd+rd)/uf exactly on a binomial threshold AND inexact in binary, n in the window between the two periods: Periodic(4,1,uf=0.7,wd=0.7,rd=1.4) [C11]"),
 "R8-C13-a": ("twolevel_binomial.py: block start from n * (1.0 / period)", "(n-1) a multiple of the period and the float product one ulp short: period 49 with n = 50 or 99, (98,99), (103,104), (107,108): RuntimeError after EndForward [C13]"),
 "R8-C13-b": ("multistage.py n_advance 'revolve': b_s_tm2 where b_sm2_tm1 belongs in the third test", "'revolve' trajectory at exact binomial fits with 3 units: (35,3), (56,3), (84,3): 141 forward steps vs 140 [C05]"),

}


def main():
    rows = []
    for sid in sorted(os.listdir(os.path.join(VERIF, "seeded"))):
        mp = os.path.join(VERIF, "seeded", sid, "meta.json")
        if not os.path.exists(mp):
            continue
        m = json.load(open(mp))
        if sid in NEEDS:
            m["change"] = NEEDS[sid][0]
            m["needs_to_manifest"] = NEEDS[sid][1]
            json.dump(m, open(mp, "w"), indent=1)
        det = m.get("detected_by", {})
        hits = sorted(k for k, v in det.items() if v.get("exit") == 1)
        miss = sorted(k for k, v in det.items() if v.get("exit") == 0)
        clauses = set()
        for k in hits:
            for line in det[k]["violations"]:
                for tok in line.split():
                    if tok.startswith("clause="):
                        clauses.add(tok[7:])
        rows.append((sid, m.get("change", ""), m.get("needs_to_manifest", ""), hits, miss, sorted(clauses)))
    print("| seed | change | needs, to manifest | caught by (clauses) | not caught by |")
    print("|---|---|---|---|---|")
    for sid, ch, need, hits, miss, cl in rows:
        print(f"| {sid} | {ch} | {need} | {', '.join(hits) or '-'} ({', '.join(cl[:4])}{'...' if len(cl) > 4 else ''}) | {', '.join(miss) or '-'} |")
    caught = sum(1 for r in rows if r[3])
    print(f"\n{caught} of {len(rows)} seeded changes are caught by at least one registered check.")


if __name__ == "__main__":
    main()
