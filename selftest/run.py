#!/venv/bin/python
"""Binding self-test (make selftest): corrupt ONE field of a valid recorded trace at a time
and require TLC to reject it with the expected clause.  A trace specification that
"constrains only length" would accept all of these."""
import copy
import os
import sys

sys.path.insert(0, os.path.dirname(os.path.dirname(os.path.abspath(__file__))))
from harness import framework as fw, record  # noqa: E402
from harness.record import mkcfg  # noqa: E402


def first(t, pred, nth=0):
    k = 0
    for i, e in enumerate(t["ev"]):
        if pred(e):
            if k == nth:
                return i
            k += 1
    raise LookupError


def is_act(kind):
    return lambda e: e[0] == 0 and e[1] == 0 and e[2] == kind


def corruptions():
    base = record.canonical(mkcfg("Multistage", max_n=6, ram=1, disk=1))
    two = record.canonical(mkcfg("TwoLevel", N=5, passes=2, period=2, ram=1, st=0))
    rev = record.canonical(mkcfg("Revolve", max_n=5, ram=2))
    sdm = record.canonical(mkcfg("SingleDiskMove", N=3, passes=1))
    out = [("valid Multistage", base, None), ("valid TwoLevel", two, None), ("valid Revolve", rev, None),
           ("valid SingleDiskMove", sdm, None)]

    def mut(name, src, fn, expect):
        t = copy.deepcopy(src)
        fn(t)
        out.append((name, t, expect))

    def set_field(pred, idx, delta=None, value=None, nth=0):
        def f(t):
            i = first(t, pred, nth)
            t["ev"][i][idx] = value if value is not None else t["ev"][i][idx] + delta
        return f

    mut("Forward n0 off by one", base, set_field(is_act(0), 3, delta=1, nth=1), "C01.fwd_start")
    mut("Copy turned into Move", base, set_field(is_act(2), 2, value=3), "C01.load_exists")
    mut("Move turned into Copy", base, set_field(is_act(3), 2, value=2), "C04.clean")
    mut("a Reverse dropped", base, lambda t: t["ev"].pop(first(t, is_act(1), 1)), "C02.rev_order")
    mut("EndForward dropped", base, lambda t: t["ev"].pop(first(t, is_act(4))), "C02.only_forward_before_ef")
    mut("reported r off by one", base, set_field(is_act(1), 10, delta=1), "C08.r")
    mut("reported n off by one", base, set_field(is_act(0), 9, delta=1, nth=2), "C08.n")
    mut("reported max_n wrong", base, set_field(is_act(0), 11, delta=1), "C08.max_n")
    mut("checkpoint written to the other storage", base,
        lambda t: t["ev"][first(t, lambda e: is_act(0)(e) and e[7] == 0)].__setitem__(7, 1), "C01.load_exists")
    mut("both flags set on a stored checkpoint", base,
        lambda t: t["ev"][first(t, lambda e: is_act(0)(e) and e[7] in (0, 1))].__setitem__(6, 1), "C03.kind")
    mut("dependency Forward not adjacent", base, set_field(lambda e: is_act(0)(e) and e[6] == 1, 3, delta=-1), "C12.deps_adjacent")
    mut("is_exhausted not set at the end", base, set_field(is_act(5), 12, value=0), "C09.is_exhausted")
    mut("is_running false after next", base, set_field(is_act(0), 13, value=0), "C09.is_running")
    mut("action after the end", base,
        lambda t: t["ev"].__setitem__(len(t["ev"]) - 1, copy.deepcopy(t["ev"][first(t, is_act(5))])), "C02.after_last")
    mut("uses_storage_type(DISK) false", base, set_field(lambda e: True, 14, value=1 + 3 * 64 + 3 * 512), "C11.under_report")
    mut("uses_storage_type raises", base, set_field(lambda e: True, 14, value=1 + 4 * 8), "C11.no_raise")
    mut("repr does not round-trip", base, set_field(is_act(0), 15, value=0 + 8 * 0 + 64 * 1 + 512 * 1 + 4096 * 2), "C18.repr_roundtrip")
    mut("float step number", base, set_field(is_act(0), 15, value=5 + 8 * 0 + 64 * 1 + 512 * 1 + 4096 * 2), "C18.shape")
    mut("second pass differs", two,
        lambda t: t["ev"][first(t, lambda e: is_act(0)(e) and e[6] == 0 and e[5] == 0 and e[7] == 2, 3)].__setitem__(4, 99), "C09.repeat")
    mut("TwoLevel checkpoint moved away", two, set_field(lambda e: is_act(2)(e) and e[7] == 1, 2, value=3), "C04.no_accumulation")
    mut("finalize reported as rejected", two, set_field(lambda e: e[0] == 1, 1, value=2), "C10.outcome")
    mut("RAM budget exceeded", rev, lambda t: t["p"].__setitem__("ram", 1), "C03.ram")
    mut("r reset at the final EndReverse", sdm, set_field(is_act(5), 10, value=0), "C08.r")
    return out


def main():
    ctx = fw.Ctx("SELFTEST", "quick", 0)
    cases = corruptions()
    traces = [t for _, t, _ in cases]
    try:
        verdicts = fw.validate(ctx, traces)
    finally:
        ctx.cleanup()
    bad = 0
    for (name, t, expect), v in zip(cases, verdicts):
        got = sorted({c for c, _, _ in v["viol"]})
        ok = (got == []) if expect is None else (expect in got)
        print(f"{'ok  ' if ok else 'FAIL'} {name:45s} expect={expect} got={got}")
        bad += not ok
    print(f"{len(cases) - bad}/{len(cases)} corruption cases behave as expected")
    return 1 if bad else 0


if __name__ == "__main__":
    sys.exit(main())
