#!/venv/bin/python
"""Binding self-test (make selftest): corrupt ONE field of a valid recorded trace at a time
and require TLC to reject it with the expected clause.  A trace specification that
"constrains only length" would accept all of these."""
import copy
import os
import sys

sys.path.insert(0, os.path.dirname(os.path.dirname(os.path.abspath(__file__))))
from harness import framework as fw, record  # noqa: E402
from harness.record import mkcfg  # noqa: E402


def first(t, pred, nth=0):
    k = 0
    for i, e in enumerate(t["ev"]):
        if pred(e):
            if k == nth:
                return i
            k += 1
    raise LookupError


def is_act(kind):
    return lambda e: e[0] == 0 and e[1] == 0 and e[2] == kind


def corruptions():
    base = record.canonical(mkcfg("Multistage", max_n=6, ram=1, disk=1))
    two = record.canonical(mkcfg("TwoLevel", N=5, passes=2, period=2, ram=1, st=0))
    rev = record.canonical(mkcfg("Revolve", max_n=5, ram=2))
    sdm = record.canonical(mkcfg("SingleDiskMove", N=3, passes=1))
    out = [("valid Multistage", base, None), ("valid TwoLevel", two, None), ("valid Revolve", rev, None),
           ("valid SingleDiskMove", sdm, None)]

    def mut(name, src, fn, expect):
        t = copy.deepcopy(src)
        fn(t)
        out.append((name, t, expect))

    def set_field(pred, idx, delta=None, value=None, nth=0):
        def f(t):
            i = first(t, pred, nth)
            t["ev"][i][idx] = value if value is not None else t["ev"][i][idx] + delta
        return f

    mut("Forward n0 off by one", base, set_field(is_act(0), 3, delta=1, nth=1), "C01.fwd_start")
    mut("Copy turned into Move", base, set_field(is_act(2), 2, value=3), "C01.load_exists")
    mut("Move turned into Copy", base, set_field(is_act(3), 2, value=2), "C04.clean")
    mut("a Reverse dropped", base, lambda t: t["ev"].pop(first(t, is_act(1), 1)), "C02.rev_order")
    mut("EndForward dropped", base, lambda t: t["ev"].pop(first(t, is_act(4))), "C02.only_forward_before_ef")
    mut("reported r off by one", base, set_field(is_act(1), 10, delta=1), "C08.r")
    mut("reported n off by one", base, set_field(is_act(0), 9, delta=1, nth=2), "C08.n")
    mut("reported max_n wrong", base, set_field(is_act(0), 11, delta=1), "C08.max_n")
    mut("checkpoint written to the other storage", base,
        lambda t: t["ev"][first(t, lambda e: is_act(0)(e) and e[7] == 0)].__setitem__(7, 1), "C01.load_exists")
    mut("both flags set on a stored checkpoint", base,
        lambda t: t["ev"][first(t, lambda e: is_act(0)(e) and e[7] in (0, 1))].__setitem__(6, 1), "C03.kind")
    mut("dependency Forward not adjacent", base, set_field(lambda e: is_act(0)(e) and e[6] == 1, 3, delta=-1), "C12.deps_adjacent")
    mut("is_exhausted not set at the end", base, set_field(is_act(5), 12, value=0), "C09.is_exhausted")
    mut("is_running false after next", base, set_field(is_act(0), 13, value=0), "C09.is_running")
    mut("action after the end", base,
        lambda t: t["ev"].__setitem__(len(t["ev"]) - 1, copy.deepcopy(t["ev"][first(t, is_act(5))])), "C02.after_last")
    mut("uses_storage_type(DISK) false", base, set_field(lambda e: True, 14, value=1 + 3 * 64 + 3 * 512), "C11.under_report")
    mut("uses_storage_type raises", base, set_field(lambda e: True, 14, value=1 + 4 * 8), "C11.no_raise")
    mut("repr does not round-trip", base, set_field(is_act(0), 15, value=0 + 8 * 0 + 64 * 1 + 512 * 1 + 4096 * 2), "C18.repr_roundtrip")
    mut("float step number", base, set_field(is_act(0), 15, value=5 + 8 * 0 + 64 * 1 + 512 * 1 + 4096 * 2), "C18.shape")
    mut("second pass differs", two,
        lambda t: t["ev"][first(t, lambda e: is_act(0)(e) and e[6] == 0 and e[5] == 0 and e[7] == 2, 3)].__setitem__(4, 99), "C09.repeat")
    mut("TwoLevel checkpoint moved away", two, set_field(lambda e: is_act(2)(e) and e[7] == 1, 2, value=3), "C04.no_accumulation")
    mut("finalize reported as rejected", two, set_field(lambda e: e[0] == 1, 1, value=2), "C10.outcome")
    mut("RAM budget exceeded", rev, lambda t: t["p"].__setitem__("ram", 1), "C03.ram")
    mut("r reset at the final EndReverse", sdm, set_field(is_act(5), 10, value=0), "C08.r")
    return out


def ops_corruptions():
    """The same for the operation layer (TraceOps): one field of a valid operation trace at a time."""
    from harness import ops
    fn = ops.record_fn({"fn": "hrevolve", "l": 6, "cvect": (1, 2), "costs": (1, 1, (0, 2), (0, 2), 1)})
    rv = ops.record_fn({"fn": "revolve", "l": 5, "cm": 2, "costs": (1, 1, 2, 2, 1)})
    cl = ops.record_class({"cls": "HRevolve", "max_n": 7, "ram": 1, "disk": 2, "costs": (1, 1, 2, 2, 1)})
    out = [("valid hrevolve sequence", fn, None), ("valid revolve sequence", rv, None),
           ("valid HRevolve operation list + stream", cl, None)]

    def mut(name, src, f, expect):
        t = copy.deepcopy(src)
        f(t)
        out.append((name, t, expect))

    def opi(t, ty, nth=0):
        return first(t, lambda e: e[0] == ty, nth)

    def acti(t, k, nth=0):
        return [i for i, a in enumerate(t["acts"]) if a[0] == k][nth]

    mut("op: Forward ends one step early", fn, lambda t: t["ev"][opi(t, 0)].__setitem__(2, t["ev"][opi(t, 0)][2] - 1), "OP.fwd_start")
    mut("op: a Write dropped", fn, lambda t: t["ev"].pop(opi(t, 2, 1)), "OP.read_exists")
    mut("op: Read from the other level", fn, lambda t: t["ev"][opi(t, 3)].__setitem__(3, 1), "OP.read_exists")
    mut("op: a Backward dropped", fn, lambda t: t["ev"].pop(opi(t, 1, 1)), "OP.bwd_order")
    mut("op: Write_Forward dropped", fn, lambda t: t["ev"].pop(opi(t, 5, 2)), "OP.bwd_tape")
    fz = ops.record_fn({"fn": "hrevolve", "l": 6, "cvect": (1, 2), "costs": (1, 1, (0, 0), (0, 0), 1)})
    mut("op: disk capacity one less", fz, lambda t: t["p"]["cap"].__setitem__(1, 1), "OP.capacity")
    mut("op: makespan attribute off by one", fn, lambda t: t["p"].__setitem__("mk", t["p"]["mk"] + 1), "OP.makespan")
    mut("op: storage attribute misses a write", fn, lambda t: t["p"]["claim"][1].pop(), "OP.storage_attr")
    mut("op: memory attribute reordered", rv, lambda t: t["p"]["claim"][0].reverse(), "OP.storage_attr")
    mut("op: read cost not charged", fn, lambda t: t["p"]["r"].__setitem__(1, 0), "OP.makespan")
    mut("op: a second Write before the Forward", fn,
        lambda t: t["ev"].insert(1, [2, 0, 0, 0]), "OP.write_then_forward")
    mut("conv: Move emitted as Copy", cl, lambda t: t["acts"][acti(t, 3)].__setitem__(0, 2), "CONV.load")
    mut("conv: checkpoint written to the other storage", cl,
        lambda t: t["acts"][[i for i, a in enumerate(t["acts"]) if a[0] == 0 and a[3] == 1][0]].__setitem__(5, 0), "CONV.forward")
    mut("conv: EndForward missing", cl, lambda t: t["acts"].pop(acti(t, 4)), "CONV.forward")
    mut("conv: a Reverse missing", cl, lambda t: t["acts"].pop(acti(t, 1, 2)), "CONV.reverse")
    mut("conv: an extra action at the end", cl, lambda t: t["acts"].append([5, 0, 0, 0, 0, 3, 3]), "CONV.all_consumed")
    mut("conv: adjoint dependencies not flagged", cl,
        lambda t: t["acts"][[i for i, a in enumerate(t["acts"]) if a[0] == 0 and a[4] == 1][1]].__setitem__(4, 0), "CONV.forward")
    return out


def gen_corruptions():
    """Generator-model conformance (TraceGenTwoLevel): a changed advance or outcome must drift."""
    two = record.canonical(mkcfg("TwoLevel", N=7, passes=2, period=4, ram=1, st=0))
    out = [("valid TwoLevel trace is a behaviour of the generator model", two, None)]

    def mut(name, fn, expect):
        t = copy.deepcopy(two)
        fn(t)
        out.append((name, t, expect))

    def adv(t, nth):
        return first(t, lambda e: is_act(0)(e) and e[5] == 0 and e[6] == 0 and e[7] == 2, nth)
    mut("gen: a plain advance one step longer", lambda t: t["ev"][adv(t, 0)].__setitem__(4, t["ev"][adv(t, 0)][4] + 1), "GEN.drift")
    mut("gen: disk checkpoint moved instead of copied",
        lambda t: t["ev"][first(t, lambda e: is_act(2)(e) and e[7] == 1)].__setitem__(2, 3), "GEN.drift")
    mut("gen: finalize outcome flipped", lambda t: t["ev"][first(t, lambda e: e[0] == 1)].__setitem__(1, 2), "GEN.drift")
    return out


def genbasic_corruptions():
    sd = record.canonical(mkcfg("SingleDiskCopy", N=3, passes=2))
    out = [("valid SingleDisk trace is the behaviour of GenBasic", sd, None)]
    t = copy.deepcopy(sd)
    t["ev"][first(t, is_act(1), 1)][10] += 1
    out.append(("genbasic: reported r differs from the model", t, "GEN.drift"))
    t = copy.deepcopy(sd)
    t["ev"][first(t, is_act(2))][2] = 3
    out.append(("genbasic: Copy emitted as Move", t, "GEN.drift"))
    return out


def gendisk_corruptions():
    dr = record.canonical(mkcfg("DiskRevolve", max_n=9, ram=1))
    out = [("valid DiskRevolve trace is a behaviour of GenDiskCore", dr, None)]
    t = copy.deepcopy(dr)
    i = first(t, lambda e: is_act(0)(e) and e[7] == 1)          # first disk write: one step shorter, the next one longer
    t["ev"][i][4] -= 1
    t["ev"][i + 1][3] -= 1
    out.append(("gendisk: a suboptimal disk split", t, "GEN.drift"))
    t = copy.deepcopy(dr)
    t["ev"][first(t, lambda e: is_act(3)(e) and e[7] == 1)][2] = 2
    out.append(("gendisk: disk checkpoint copied instead of moved", t, "GEN.drift"))
    return out


def main():
    ctx = fw.Ctx("SELFTEST", "quick", 0)
    cases = corruptions()
    traces = [t for _, t, _ in cases]
    ocases = ops_corruptions()
    try:
        verdicts = fw.validate(ctx, traces)
        verdicts += fw.validate(ctx, [t for _, t, _ in ocases], module="TraceOps", tag="ops")
        gcases = gen_corruptions()
        verdicts += fw.validate(ctx, [t for _, t, _ in gcases], module="TraceGenTwoLevel", tag="gtl")
        bcases = genbasic_corruptions()
        verdicts += fw.validate(ctx, [t for _, t, _ in bcases], module="TraceGenBasic", tag="gb")
        dcases = gendisk_corruptions()
        verdicts += fw.validate(ctx, [t for _, t, _ in dcases], module="TraceGenDisk", tag="gdk")
    finally:
        ctx.cleanup()
    cases = cases + ocases + gcases + bcases + dcases
    bad = 0
    for (name, t, expect), v in zip(cases, verdicts):
        got = sorted({c for c, _, _ in v["viol"]})
        ok = (got == []) if expect is None else (expect in got)
        print(f"{'ok  ' if ok else 'FAIL'} {name:45s} expect={expect} got={got}")
        bad += not ok
    print(f"{len(cases) - bad}/{len(cases)} corruption cases behave as expected")
    return 1 if bad else 0


if __name__ == "__main__":
    sys.exit(main())
