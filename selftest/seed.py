#!/venv/bin/python
"""Seeded-defect bookkeeping.

  seed.py confirm <src-dir> <id>    confirm a candidate change (patch.diff + demo.py) in a scratch
                                    worktree: applies, demo fails with it / passes without it,
                                    the repository's own suite still passes; then stores it as
                                    /verif/seeded/<id>/ (patch.diff, demo.py, notes.md, meta.json)
  seed.py detect <id> [checks...]   apply /verif/seeded/<id>/patch.diff to /repo, run the given
                                    checks (default: the property it breaks), undo, record which
                                    checks reported a VIOLATION in meta.json
"""
import json
import os
import shutil
import subprocess
import sys
import time

VERIF = os.path.dirname(os.path.dirname(os.path.abspath(__file__)))
SEEDED = os.path.join(VERIF, "seeded")
PY = "/venv/bin/python"


def sh(cmd, **kw):
    return subprocess.run(cmd, shell=isinstance(cmd, str), capture_output=True, text=True, **kw)


def confirm(src, sid, prop, run_suite=True):
    wt = f"/tmp/seedchk/{sid}"
    shutil.rmtree(wt, ignore_errors=True)
    os.makedirs("/tmp/seedchk", exist_ok=True)
    r = sh(["git", "-C", "/repo", "worktree", "add", "-q", "--detach", wt, "HEAD"])
    if r.returncode:
        raise SystemExit(r.stderr)
    res = {"id": sid, "property": prop}
    try:
        env = dict(os.environ, PYTHONPATH=wt)
        demo = os.path.join(src, "demo.py")
        clean = sh([PY, demo], env=env, cwd=src, timeout=1200)
        res["demo_clean_exit"] = clean.returncode
        ap = sh(["git", "-C", wt, "apply", os.path.join(src, "patch.diff")])
        res["applies"] = ap.returncode == 0
        if ap.returncode:
            res["apply_err"] = ap.stderr[-500:]
            return res
        mut = sh([PY, demo], env=env, cwd=src, timeout=1200)
        res["demo_mutant_exit"] = mut.returncode
        res["demo_mutant_tail"] = (mut.stdout + mut.stderr)[-600:]
        if run_suite:
            t0 = time.time()
            t = sh([PY, "-m", "pytest", "-q", "-p", "no:cacheprovider", "--timeout=900"], env=env,
                   cwd=wt, timeout=3000)
            res["suite_tail"] = t.stdout.strip().split("\n")[-1]
            res["suite_pass"] = (t.returncode == 0 and "82 passed" in res["suite_tail"])
            res["suite_s"] = round(time.time() - t0)
        res["confirmed"] = (res["demo_clean_exit"] == 0 and res["demo_mutant_exit"] != 0
                            and res.get("suite_pass", not run_suite))
    finally:
        sh(["git", "-C", "/repo", "worktree", "remove", "--force", wt])
        shutil.rmtree(wt, ignore_errors=True)
    if res.get("confirmed"):
        dst = os.path.join(SEEDED, sid)
        os.makedirs(dst, exist_ok=True)
        for f in ("patch.diff", "demo.py", "notes.md"):
            if os.path.exists(os.path.join(src, f)):
                shutil.copy(os.path.join(src, f), os.path.join(dst, f))
        meta = {"id": sid, "breaks": prop, "origin": "independent sub-agent given only the property text",
                "needs_to_manifest": "see notes.md",
                "confirmed": {"demo_exit_without_change": res["demo_clean_exit"],
                              "demo_exit_with_change": res["demo_mutant_exit"],
                              "repo_suite_with_change": res.get("suite_tail"),
                              "how": "scratch worktree of /repo HEAD under /tmp/seedchk (removed afterwards); "
                                     "git apply patch.diff; PYTHONPATH=<worktree> /venv/bin/python demo.py; "
                                     "pytest -q -p no:cacheprovider --timeout=900"},
                "detected_by": {}}
        json.dump(meta, open(os.path.join(dst, "meta.json"), "w"), indent=1)
    return res


def detect(sid, checks, tier="quick", inplace=False):
    """inplace=True: the official procedure (git -C /repo apply; run; git checkout).
    inplace=False: the same checks against a scratch worktree of /repo HEAD with the patch
    applied (VERIF_REPO), so that several detections can run side by side."""
    d = os.path.join(SEEDED, sid)
    meta = json.load(open(os.path.join(d, "meta.json")))
    checks = checks or [meta["breaks"]]
    env = dict(os.environ, VERIF_CACHE="1", VERIF_EVIDENCE_DIR=os.path.join(VERIF, "out", "seed-evidence"))
    wt = None
    if inplace:
        st = sh(["git", "-C", "/repo", "status", "--porcelain", "--untracked-files=no"]).stdout.strip()
        if st:
            raise SystemExit("/repo is not clean: " + st)
        target = "/repo"
    else:
        wt = f"/tmp/seedchk/det-{sid}"
        shutil.rmtree(wt, ignore_errors=True)
        os.makedirs("/tmp/seedchk", exist_ok=True)
        sh(["git", "-C", "/repo", "worktree", "prune"])
        r = sh(["git", "-C", "/repo", "worktree", "add", "-q", "--detach", wt, "HEAD"])
        if r.returncode:
            raise SystemExit(r.stderr)
        target = wt
        env["VERIF_REPO"] = wt
    ap = sh(["git", "-C", target, "apply", os.path.join(d, "patch.diff")])
    if ap.returncode:
        raise SystemExit("patch does not apply: " + ap.stderr)
    out = {}
    try:
        for c in checks:
            t0 = time.time()
            r = sh([os.path.join(VERIF, "check"), c, "--tier", tier], cwd=VERIF, env=env)
            lines = [l for l in r.stdout.split("\n") if l.startswith("VIOLATION")]
            out[c] = {"exit": r.returncode, "violations": [l[:300] for l in lines[:6]],
                      "wall_s": round(time.time() - t0)}
            if r.returncode == 2:
                out[c]["stderr"] = r.stderr[-400:]
    finally:
        if inplace:
            sh(["git", "-C", "/repo", "checkout", "--", "."])
        else:
            sh(["git", "-C", "/repo", "worktree", "remove", "--force", wt])
            shutil.rmtree(wt, ignore_errors=True)
    meta.setdefault("detected_by", {})
    for c, v in out.items():
        meta["detected_by"][f"{c}/{tier}"] = v
    json.dump(meta, open(os.path.join(d, "meta.json"), "w"), indent=1)
    # evidence files were rewritten against the mutated tree: they are regenerated by the next clean run
    return out


if __name__ == "__main__":
    cmd = sys.argv[1]
    if cmd == "confirm":
        src, sid, prop = sys.argv[2], sys.argv[3], sys.argv[4]
        print(json.dumps(confirm(src, sid, prop, run_suite="--nosuite" not in sys.argv), indent=1))
    elif cmd == "detect":
        tier = "quick"
        args = sys.argv[3:]
        inplace = "--inplace" in args
        if inplace:
            args.remove("--inplace")
        if "--thorough" in args:
            args.remove("--thorough")
            tier = "thorough"
        print(json.dumps(detect(sys.argv[2], args, tier, inplace), indent=1))
