#!/venv/bin/python
"""Prints the table of DESIGN.md 12.6 from log files of quick and thorough runs
(lines 'OK property=Cxx tier=... wall=...s states=... traces=...')."""
import re
import sys

pat = re.compile(r"OK property=(C\d+) tier=(\w+) wall=([\d.]+)s states=(\d+) traces=(\d+)")
rows = {}
for path in sys.argv[1:]:
    for line in open(path, errors="replace"):
        m = pat.search(line)
        if m:
            rows.setdefault(m.group(1), {})[m.group(2)] = (float(m.group(3)), int(m.group(4)), int(m.group(5)))
print("| property | quick wall | quick states | quick traces | thorough wall | thorough states | thorough traces |")
print("|---|---|---|---|---|---|---|")
tq = tt = 0
for p in sorted(rows):
    q = rows[p].get("quick")
    t = rows[p].get("thorough")
    f = lambda x: (f"{x[0]:.0f} s | {x[1]:,} | {x[2]:,}" if x else "- | - | -")
    tq += q[0] if q else 0
    tt += t[0] if t else 0
    print(f"| {p} | {f(q)} | {f(t)} |")
print(f"\nquick total {tq/60:.0f} min, thorough total {tt/60:.0f} min")
