#!/bin/bash
# Negative controls: property-preserving changes must NOT raise an alarm.
# usage: selftest/negative.sh [checks...]   (default: all 19), results in out/negative/<name>.log
cd /verif
CHECKS=${@:-C01 C02 C03 C04 C05 C06 C07 C08 C09 C10 C11 C12 C13 C14 C15 C16 C17 C18 C19}
mkdir -p out/negative
rc=0
for p in ${NEG_PATCHES:-selftest/negative/*.patch}; do
  name=$(basename $p .patch)
  wt=/tmp/negchk/$name
  rm -rf $wt; mkdir -p /tmp/negchk; git -C /repo worktree prune
  git -C /repo worktree add -q --detach $wt HEAD || exit 2
  git -C $wt apply /verif/$p || { echo "$name: patch does not apply"; rc=2; continue; }
  : > out/negative/$name.log
  for c in $CHECKS; do
    VERIF_REPO=$wt VERIF_CACHE=1 VERIF_EVIDENCE_DIR=/verif/out/negative/evidence ./check $c --tier quick >> out/negative/$name.log 2>&1
    e=$?
    echo "$name $c exit=$e" | tee -a out/negative/summary.txt
    [ $e -ne 0 ] && rc=1
  done
  git -C /repo worktree remove --force $wt
done
exit $rc
