#!/venv/bin/python
"""Systematic blind-spot search: single-token mutants of the library, screened by the registered
checks (quick tier).  Complements the sub-agent seeds (realistic, few) with crude but systematic
changes (many): a SURVIVOR is a mutant no check reports - either equivalent, or a blind spot.

  mutants.py gen                       list the mutants (out/mutants/mutants.json)
  mutants.py run [K] [--sample N]      screen mutants K workers at a time; results in
                                       out/mutants/results.jsonl (resumable)
  mutants.py report                    summary + survivors

Every mutant lives in its own scratch copy of the package under /tmp/mut (removed afterwards) and is
reached through VERIF_REPO; /repo is never touched.  Stage 1: all executor clauses on the quick box
(one TLC validation).  Stage 2 (survivors of stage 1): the checks that own the mutated file.
"""
import ast
import json
import os
import random
import shutil
import subprocess
import sys
import time

VERIF = os.path.dirname(os.path.dirname(os.path.abspath(__file__)))
OUT = os.path.join(VERIF, "out", "mutants")
PKG = "/repo/checkpoint_schedules"
PY = "/venv/bin/python"

FILES = ["schedule.py", "basic_schedules.py", "multistage.py", "mixed.py", "twolevel_binomial.py", "hrevolve.py",
         "hrevolve_sequences/revolve.py", "hrevolve_sequences/disk_revolve.py",
         "hrevolve_sequences/periodic_disk_revolve.py", "hrevolve_sequences/hrevolve.py",
         "hrevolve_sequences/basic_functions.py"]

# the checks that own a file (stage 2), beyond the executor box of stage 1
OWNERS = {
    "schedule.py": ["C17", "C18", "C10", "C09", "C15"],
    "basic_schedules.py": ["C09", "C10", "C17"],
    "multistage.py": ["C05", "C14", "C17"],
    "mixed.py": ["C06", "C16", "C17"],
    "twolevel_binomial.py": ["C13", "C09", "C10", "C17"],
    "hrevolve.py": ["C07", "C17", "C19"],
    "hrevolve_sequences/revolve.py": ["C05", "C07", "C17"],
    "hrevolve_sequences/disk_revolve.py": ["C07", "C17"],
    "hrevolve_sequences/periodic_disk_revolve.py": ["C19", "C07", "C17"],
    "hrevolve_sequences/hrevolve.py": ["C07", "C17"],
    "hrevolve_sequences/basic_functions.py": ["C07", "C19", "C17"],
}

CMP = {ast.Lt: "<=", ast.LtE: "<", ast.Gt: ">=", ast.GtE: ">", ast.Eq: "!=", ast.NotEq: "=="}
SKIP_FUNCS = {"__repr__", "__str__", "set_to_print", "__del__", "from_list_to_string", "convert_old_to_branch",
              "convert_new_to_branch", "canonical", "concat_sequence_hierarchic"}


def _mutants_of(rel):
    src = open(os.path.join(PKG, rel)).read()
    lines = src.split("\n")
    tree = ast.parse(src)
    out = []

    def text(node):
        if node.lineno != node.end_lineno:
            return None
        return lines[node.lineno - 1][node.col_offset:node.end_col_offset]

    def add(line, col, end, new, kind):
        old = lines[line - 1][col:end]
        if old == new:
            return
        out.append({"file": rel, "line": line, "col": col, "end": end, "old": old, "new": new, "kind": kind})

    class V(ast.NodeVisitor):
        def __init__(self):
            self.fn = []

        def visit_FunctionDef(self, node):
            if node.name in SKIP_FUNCS:
                return
            self.fn.append(node.name)
            # skip the docstring
            body = node.body
            if body and isinstance(body[0], ast.Expr) and isinstance(getattr(body[0], "value", None), ast.Constant) \
                    and isinstance(body[0].value.value, str):
                body = body[1:]
            for b in body:
                self.visit(b)
            self.fn.pop()

        def visit_Compare(self, node):
            if len(node.ops) == 1 and type(node.ops[0]) in CMP and node.lineno == node.end_lineno:
                l, r = node.left, node.comparators[0]
                if l.end_lineno == r.lineno == node.lineno:
                    seg = lines[node.lineno - 1][l.end_col_offset:r.col_offset]
                    opmap = {ast.Lt: "<", ast.LtE: "<=", ast.Gt: ">", ast.GtE: ">=", ast.Eq: "==", ast.NotEq: "!="}
                    tok = opmap[type(node.ops[0])]
                    i = seg.find(tok)
                    if i >= 0:
                        c0 = l.end_col_offset + i
                        add(node.lineno, c0, c0 + len(tok), CMP[type(node.ops[0])], "cmp")
            self.generic_visit(node)

        def visit_Constant(self, node):
            if isinstance(node.value, bool):
                add(node.lineno, node.col_offset, node.end_col_offset, str(not node.value), "bool")
            elif isinstance(node.value, int) and node.lineno == node.end_lineno and abs(node.value) <= 3:
                add(node.lineno, node.col_offset, node.end_col_offset, str(node.value + 1), "const+1")
                if node.value >= 1:
                    add(node.lineno, node.col_offset, node.end_col_offset, str(node.value - 1), "const-1")

        def visit_BinOp(self, node):
            if isinstance(node.op, (ast.Add, ast.Sub)) and node.lineno == node.end_lineno \
                    and node.left.end_lineno == node.right.lineno == node.lineno:
                seg = lines[node.lineno - 1][node.left.end_col_offset:node.right.col_offset]
                tok = "+" if isinstance(node.op, ast.Add) else "-"
                i = seg.find(tok)
                if i >= 0 and seg.count(tok) == 1:
                    c0 = node.left.end_col_offset + i
                    add(node.lineno, c0, c0 + 1, "-" if tok == "+" else "+", "arith")
            self.generic_visit(node)

        def visit_BoolOp(self, node):
            if node.lineno == node.end_lineno and len(node.values) == 2:
                a, b = node.values
                seg = lines[node.lineno - 1][a.end_col_offset:b.col_offset]
                tok = " and " if isinstance(node.op, ast.And) else " or "
                i = seg.find(tok)
                if i >= 0:
                    c0 = a.end_col_offset + i
                    add(node.lineno, c0, c0 + len(tok), " or " if tok == " and " else " and ", "bool-op")
            self.generic_visit(node)

        def visit_UnaryOp(self, node):
            if isinstance(node.op, ast.Not) and node.lineno == node.end_lineno:
                t = text(node)
                if t and t.startswith("not "):
                    add(node.lineno, node.col_offset, node.col_offset + 4, "", "not")
            self.generic_visit(node)

    V().visit(tree)
    return out


def gen():
    os.makedirs(OUT, exist_ok=True)
    ms = []
    for f in FILES:
        ms += _mutants_of(f)
    for i, m in enumerate(ms):
        m["id"] = i
    json.dump(ms, open(os.path.join(OUT, "mutants.json"), "w"), indent=0)
    return ms


def _apply(m, root):
    p = os.path.join(root, "checkpoint_schedules", m["file"])
    lines = open(p).read().split("\n")
    ln = lines[m["line"] - 1]
    assert ln[m["col"]:m["end"]] == m["old"], (ln, m)
    lines[m["line"] - 1] = ln[:m["col"]] + m["new"] + ln[m["end"]:]
    open(p, "w").write("\n".join(lines))


SCREEN = r'''
import sys, json
sys.path.insert(0, %r)
from harness import framework as fw, eprops
ctx = fw.Ctx("C01", "quick", 0)
try:
    res = eprops.ebox_result(ctx)
    fail = {}
    for t, v in zip(res["traces"], res["verdicts"]):
        for c, pos, later in v["viol"]:
            fail[c] = fail.get(c, 0) + 1
    print("SCREEN " + json.dumps(fail))
finally:
    ctx.cleanup()
''' % VERIF


def screen_one(m, slot):
    root = f"/tmp/mut/w{slot}"
    shutil.rmtree(root, ignore_errors=True)
    os.makedirs(root)
    shutil.copytree(PKG, os.path.join(root, "checkpoint_schedules"),
                    ignore=shutil.ignore_patterns("__pycache__"))
    res = dict(m)
    t0 = time.time()
    try:
        _apply(m, root)
        env = dict(os.environ, VERIF_REPO=root, PYTHONHASHSEED="0", VERIF_EVIDENCE_DIR=f"/tmp/mut/ev{slot}",
                   VERIF_NO_OPLAYER="1")
        c = subprocess.run([PY, "-c", "import sys; sys.path.insert(0, %r); import checkpoint_schedules" % root],
                           capture_output=True, text=True, env=env, timeout=120)
        if c.returncode:
            res["killed_by"] = "import"
            return res
        p = subprocess.run([PY, "-c", SCREEN], capture_output=True, text=True, env=env, timeout=1500, cwd=VERIF)
        line = [x for x in p.stdout.split("\n") if x.startswith("SCREEN ")]
        if not line:
            res["killed_by"] = "stage1:machinery"
            res["detail"] = (p.stdout + p.stderr)[-300:]
            return res
        fail = json.loads(line[0][7:])
        if fail:
            res["killed_by"] = "stage1"
            res["clauses"] = sorted(fail)[:6]
            return res
        for chk in OWNERS[m["file"]]:
            q = subprocess.run([os.path.join(VERIF, "check"), chk], capture_output=True, text=True, env=env,
                               timeout=3000, cwd=VERIF)
            if q.returncode == 1:
                res["killed_by"] = chk
                v = [x for x in q.stdout.split("\n") if x.startswith("VIOLATION")]
                res["clauses"] = [x.split("clause=")[1].split()[0] for x in v if "clause=" in x][:4]
                return res
            if q.returncode == 2:
                res["killed_by"] = chk + ":machinery"
                res["detail"] = (q.stdout + q.stderr)[-300:]
                return res
        res["killed_by"] = None
        return res
    except subprocess.TimeoutExpired:
        res["killed_by"] = "timeout"
        return res
    finally:
        res["wall_s"] = round(time.time() - t0)
        shutil.rmtree(root, ignore_errors=True)
        shutil.rmtree(f"/tmp/mut/ev{slot}", ignore_errors=True)


def run(k, sample, rev=False, base=0):
    from concurrent.futures import ThreadPoolExecutor
    ms = json.load(open(os.path.join(OUT, "mutants.json")))
    rp = os.path.join(OUT, "results.jsonl")
    done = set()
    if os.path.exists(rp):
        done = {json.loads(x)["id"] for x in open(rp) if x.strip()}
    rnd = random.Random(20261001)
    order = list(range(len(ms)))
    rnd.shuffle(order)
    if rev:
        order.reverse()
    todo = [ms[i] for i in order if ms[i]["id"] not in done][:sample]
    import queue
    slots = queue.Queue()
    for i in range(k):
        slots.put(base + i)

    def work(m):
        s = slots.get()
        try:
            r = screen_one(m, s)
        finally:
            slots.put(s)
        with open(rp, "a") as f:
            f.write(json.dumps(r) + "\n")
        return r

    with ThreadPoolExecutor(k) as ex:
        for r in ex.map(work, todo):
            print(r["id"], r["file"], r["line"], repr(r["old"]), "->", repr(r["new"]), "=>", r["killed_by"],
                  r.get("clauses", ""), flush=True)


def report():
    rp = os.path.join(OUT, "results.jsonl")
    rs = [json.loads(x) for x in open(rp) if x.strip()]
    from collections import Counter
    c = Counter((r["killed_by"] or "SURVIVED").split(":")[0] if r["killed_by"] else "SURVIVED" for r in rs)
    print(len(rs), "mutants screened:", dict(c))
    for r in rs:
        if r["killed_by"] is None or "machinery" in str(r["killed_by"]) or r["killed_by"] == "timeout":
            src = open(os.path.join(PKG, r["file"])).read().split("\n")[r["line"] - 1].strip()
            print(f"  {r['killed_by'] or 'SURVIVED'}  #{r['id']} {r['file']}:{r['line']}  {r['old']!r} -> {r['new']!r}   | {src[:110]}")


if __name__ == "__main__":
    cmd = sys.argv[1]
    if cmd == "gen":
        ms = gen()
        from collections import Counter
        print(len(ms), "mutants", dict(Counter(m["file"] for m in ms)))
    elif cmd == "run":
        k = int(sys.argv[2]) if len(sys.argv) > 2 and sys.argv[2].isdigit() else 3
        n = int(sys.argv[sys.argv.index("--sample") + 1]) if "--sample" in sys.argv else 10 ** 9
        run(k, n, rev="--rev" in sys.argv, base=10 if "--rev" in sys.argv else 0)
    elif cmd == "report":
        report()
