SPECIFICATION ClientSpec
INVARIANT Verdict
CHECK_DEADLOCK FALSE
