SPECIFICATION Spec
CONSTANTS
  N = 2
  LimR = 1
  LimD = 1
  Passes = 2
  AllMem = FALSE
VIEW ViewRepeat
INVARIANT ReachSecondPass
CHECK_DEADLOCK FALSE
CONSTRAINT PassBound
