------------------------------ MODULE SchedAPI ------------------------------
(***************************************************************************)
(* The public call protocol of a schedule object on top of the executor:   *)
(* next(), finalize(k) and the observers n, r, max_n, is_exhausted,        *)
(* is_running, uses_storage_type.                                          *)
(*                                                                         *)
(* The specification never predicts WHICH action next() returns - that is  *)
(* an input, and must be allowed by Executor.  What it does predict is     *)
(* exactly what C08-C11 state: outcomes of finalize, every observer value, *)
(* exhaustion and StopIteration.                                           *)
(*                                                                         *)
(* An observation is a record [n, r, m, x, g, u]; x, g and the four        *)
(* entries of u (RAM, DISK, WORK, NONE) are answer codes:                  *)
(*   0 False, 1 True, 2 truthy non-bool, 3 falsy non-bool, 4 raised.       *)
(***************************************************************************)
EXTENDS Executor

VARIABLES
  started,    \* next() has been requested at least once
  exhausted,  \* the final action of the class profile has been emitted
  needEF,     \* an online schedule was just finalised: the next action must be EndForward
  touched,    \* <<RAM, DISK>>: some emitted action touched the storage
  saidF,      \* <<RAM, DISK>>: uses_storage_type(s) was answered with something not true
  lobs        \* the previous observation (<<>> before the first)

avars == <<started, exhausted, needEF, touched, saidF, lobs>>

ONext == 0  OStop == 1  OExc == 2                 \* outcomes of next()
FOk == 0  FValue == 1  FRuntime == 2  FOther == 3 \* outcomes of finalize()

Truthy(c) == c \in {1, 2}

APIInit ==
  /\ started = FALSE /\ exhausted = FALSE /\ needEF = FALSE
  /\ touched = <<FALSE, FALSE>> /\ saidF = <<FALSE, FALSE>> /\ lobs = <<>>

-----------------------------------------------------------------------------
(* next() *)
IsFinal(e) == \/ (e.k = KEF /\ prof.passes = 0 /\ phase = "fwd")
              \/ (e.k = KER /\ prof.passes = 1 /\ phase = "rev")

NextClauses(o, e) ==
       C("C09.stop_after_exhausted", exhausted => o = OStop)
  \cup C("C09.premature_stop", ~exhausted => o = ONext)
  \cup C("C02.incomplete", (~exhausted /\ phase # "done") => o = ONext)   \* the stream ends before its structure is complete
  \cup C("C10.ef_after_finalize", needEF => (o = ONext /\ e.k = KEF))
  \cup (IF o = ONext
        THEN      C("C18.shape", WellFormed(e))
             \cup ActClauses(e)
        ELSE {})

NextEffect(o, e) ==
  /\ started' = TRUE
  /\ IF o = ONext
       THEN /\ ActEffect(e)
            /\ exhausted' = (exhausted \/ IsFinal(e))
            /\ needEF' = FALSE
            /\ touched' = <<touched[1] \/ Touches(e, RAM), touched[2] \/ Touches(e, DISK)>>
       ELSE UNCHANGED <<evars, exhausted, needEF, touched>>

-----------------------------------------------------------------------------
(* finalize(k): the guard of C10, written once. *)
FinExpected(k) ==
  IF k < 1 THEN FValue
  ELSE IF ~Known THEN (IF told >= k THEN FOk ELSE FRuntime)
  ELSE IF k = maxN /\ fwd = maxN THEN FOk ELSE FRuntime

FinClauses(k, o) ==
  C("C10.outcome", lost \/ o = FinExpected(k))

(* The effect follows the OBSERVED outcome, so that the rest of the trace   *)
(* is judged against what the object actually did.                          *)
FinEffect(k, o) ==
  /\ IF o = FOk /\ ~Known /\ k >= 1
       THEN /\ maxN' = k
            /\ fwd' = (IF fwd >= k THEN k ELSE fwd)
            /\ needEF' = TRUE
       ELSE UNCHANGED <<maxN, fwd, needEF>>
  /\ UNCHANGED <<prof, told, adj, wIcs, wDeps, lost, ram, disk, phase, pass, atEF, cnt, p1, pos>>
  /\ UNCHANGED <<started, exhausted, touched>>

(* Clauses on the observation made right after a finalize call. *)
FinObsClauses(k, o, ob, wasKnown) ==
  IF o = FOk /\ ~wasKnown
    THEN C("C10.fin_state", ob.m = k /\ ob.n = k)
    ELSE C(IF o = FOk THEN "C10.noop" ELSE "C10.reject_no_effect",
           lobs = <<>> \/ ob = lobs[1])

-----------------------------------------------------------------------------
(* Observers, evaluated on the state AFTER the call (primed variables). *)
ObsClausesNext(ob) ==
       C("C08.n", (fwd' # Undef /\ ~lost')
                     => ob.n = (IF maxN' = Unknown THEN told' ELSE fwd'))
  \cup C("C08.r", ob.r = adj')
  \cup C("C08.max_n", ob.m = maxN')
  \cup C("C09.is_exhausted", ob.x # 4 /\ Truthy(ob.x) = exhausted')
  \cup C("C09.is_running", ob.g # 4 /\ Truthy(ob.g) = started')
  \cup C("C11.no_raise", \A i \in 1..4 : ob.u[i] # 4)
  \cup C("C11.under_report", \A i \in 1..2 : ~(touched'[i] /\ saidF'[i]))

ObsEffect(ob) ==
  /\ saidF' = <<saidF[1] \/ ob.u[1] \in {0, 3}, saidF[2] \/ ob.u[2] \in {0, 3}>>
  /\ lobs' = <<ob>>
=============================================================================
