------------------------------ MODULE TraceExec ------------------------------
(***************************************************************************)
(* code -> spec: replay traces recorded from the real schedule objects     *)
(* (harness/record.py) through the SAME operators as the free              *)
(* specification.  One behaviour per trace (tid), one step per logged      *)
(* call.  Effects are total, so a trace is always consumed to its end;     *)
(* every clause that is false at an event is recorded with the position    *)
(* of its first failure, and the verdict is printed when the trace ends.   *)
(*                                                                         *)
(* Acceptance (checked by the runner): distinct states = sum(len + 1).     *)
(***************************************************************************)
EXTENDS SchedAPI, Json, IOUtils, TLCExt

Traces == JsonDeserialize(IOEnv.TRACE_FILE)

VARIABLES tid, l, viol
tvars == <<tid, l, viol>>
vars == <<evars, avars, tvars>>

T == Traces[tid]
TLen == Len(T.ev)

(* ---- decoding of one logged call (layout: harness/record.py) ---- *)
EvC(e) == e[1]   EvO(e) == e[2]   EvK(e) == e[3]
Digit(w, i) == (w \div (8 ^ i)) % 8
FlagOK(c) == c \in {0, 1}
EvAct(e) == Act(e[3], e[4], e[5], Truthy(e[6]), Truthy(e[7]), e[8], e[9])
EvObs(e) == [n |-> e[10], r |-> e[11], m |-> e[12], x |-> e[13], g |-> e[14],
             u |-> <<Digit(e[15], 0), Digit(e[15], 1), Digit(e[15], 2), Digit(e[15], 3)>>]
CNext == 0  CFin == 1  CObs == 2

(* C18.shape, the part only the recorder can see: Python types of the arguments. *)
IntTy == {0, 3}   BoolTy == {1, 4}   StTy == {2}
TypesOK(e) ==
  LET w == e[16] IN
  CASE e[3] = KF -> /\ Digit(w, 0) \in IntTy /\ Digit(w, 1) \in IntTy
                    /\ Digit(w, 2) \in BoolTy /\ Digit(w, 3) \in BoolTy
                    /\ Digit(w, 4) \in StTy /\ FlagOK(e[6]) /\ FlagOK(e[7])
    [] e[3] = KR -> /\ Digit(w, 0) \in IntTy /\ Digit(w, 1) \in IntTy
                    /\ Digit(w, 2) \in BoolTy /\ FlagOK(e[6])
    [] e[3] \in {KC, KM} -> Digit(w, 0) \in IntTy /\ Digit(w, 1) \in StTy /\ Digit(w, 2) \in StTy
    [] OTHER -> TRUE
(* C18: repr() of an emitted action evaluates back to an equal action (digit 5 of the type word, *)
(* computed by the recorder in a namespace with sys, numpy/np and the package's public names)     *)
ReprOK(e) == Digit(e[16], 5) = 1

(* ---- class profiles: the budgets and pass counts of the statements (C03, C09) ---- *)
Prof(online, passes, allmem, limR, limD, period, perstep) ==
  [online |-> online, passes |-> passes, allmem |-> allmem, limR |-> limR, limD |-> limD,
   period |-> period, perstep |-> perstep]

ProfileOf(cls, p) ==
  CASE cls = "SingleMemory"   -> Prof(TRUE, 2, TRUE, 0, 0, 0, FALSE)
    [] cls = "SingleDiskCopy" -> Prof(TRUE, 2, FALSE, 0, -1, 0, FALSE)    \* "nothing outside their one storage"
    [] cls = "SingleDiskMove" -> Prof(TRUE, 1, FALSE, 0, -1, 0, FALSE)
    [] cls = "None"           -> Prof(TRUE, 0, FALSE, 0, 0, 0, FALSE)
    [] cls = "Multistage"     -> Prof(FALSE, 1, FALSE, Max(p.ram, 0), Max(p.disk, 0), 0, FALSE)
    [] cls = "Mixed"          -> Prof(FALSE, 1, FALSE, IF p.st = RAM THEN Max(p.ram, 0) ELSE 0,
                                      IF p.st = DISK THEN Max(p.ram, 0) ELSE 0, 0, FALSE)
    [] cls = "TwoLevel"       -> Prof(TRUE, 2, FALSE, IF p.st = RAM THEN Max(p.ram, 0) ELSE 0,
                                      IF p.st = DISK THEN Max(p.ram, 0) ELSE 0, p.period, FALSE)
    [] cls = "Revolve"        -> Prof(FALSE, 1, FALSE, p.ram, 0, 0, FALSE)
    [] cls = "DiskRevolve"    -> Prof(FALSE, 1, FALSE, p.ram, -1, 0, FALSE)
    [] cls = "PeriodicDiskRevolve" -> Prof(FALSE, 1, FALSE, p.ram, -1, 0, FALSE)
    [] cls = "HRevolve"       -> Prof(FALSE, 1, FALSE, p.ram, p.disk, 0, FALSE)

TraceInit ==
  /\ tid \in 1..Len(Traces)
  /\ l = 1 /\ viol = {}
  /\ LET pf == ProfileOf(T.cls, T.p) IN
       ExecInit(pf, IF pf.online THEN Unknown ELSE T.p.max_n)
  /\ APIInit

(* the clauses of one event, and its total effect *)
CallClauses(e) ==
  CASE EvC(e) = CNext -> NextClauses(EvO(e), EvAct(e))
                         \cup (IF EvO(e) = ONext THEN C("C18.shape", TypesOK(e)) \cup C("C18.repr_roundtrip", ReprOK(e))
                                                 ELSE {})
    [] EvC(e) = CFin  -> FinClauses(e[4], EvO(e))
    [] OTHER -> {}

CallEffect(e) ==
  CASE EvC(e) = CNext -> NextEffect(EvO(e), EvAct(e))
    [] EvC(e) = CFin  -> FinEffect(e[4], EvO(e))
    [] OTHER -> UNCHANGED <<evars, started, exhausted, needEF, touched>>

PostClauses(e) ==
  ObsClausesNext(EvObs(e)) \cup StateClausesNext
  \cup (IF EvC(e) = CFin THEN FinObsClauses(e[4], EvO(e), EvObs(e), Known) ELSE {})

(* A clause is recorded at its first failure, separately for the first and   *)
(* for later adjoint calculations (C09: "an exact, executable repeat").      *)
Later == prof.passes = 2 /\ pass >= 1
Seen == {v[1] : v \in {w \in viol : w[3] = Later}}

Ev == T.ev[l]       \* the event being consumed

(* One step of a trace specification: the total effect of the logged call, plus the   *)
(* failing clauses - those of the core specification and `extra`, the clauses of a    *)
(* specification extending this one (evaluated lazily, only when l <= TLen).          *)
Step(extra) ==
  /\ l <= TLen
  /\ CallEffect(Ev)
  /\ ObsEffect(EvObs(Ev))
  /\ viol' = viol \cup {<<c, l, Later>> : c \in (CallClauses(Ev) \cup PostClauses(Ev) \cup extra) \ Seen}
  /\ l' = l + 1 /\ tid' = tid

TraceNext == Step({})

TraceSpec == TraceInit /\ [][TraceNext]_vars

(* Printed once per trace, when it has been consumed. *)
Verdict ==
  (l = TLen + 1) => PrintT(<<"@V", tid, viol, cnt, pass, phase, "V@">>)
=============================================================================
