------------------------------ MODULE GenTwoLevel ------------------------------
(***************************************************************************)
(* Generator model of TwoLevelCheckpointSchedule (twolevel_binomial.py):   *)
(* an ONLINE schedule - periodic restart checkpoints to DISK until the     *)
(* client finalises (anywhere inside the last period), then, for each      *)
(* period block from the last to the first, binomial recomputation with    *)
(* binomial_snapshots + 1 units (the block's disk checkpoint counting as   *)
(* one, and being kept for the next adjoint calculation), for arbitrarily  *)
(* many adjoint calculations.  Step sizes are nondeterministic: any        *)
(* Bellman-optimal advance (GenBinomialCore.OptOf).                        *)
(*                                                                         *)
(* Design level, no code: composed with Executor/SchedAPI, TLC explores    *)
(* every interleaving of next() and finalize(k) and every resolution of    *)
(* the step choice, and checks that no clause of C01-C04, C08-C12 fails,   *)
(* the forward pattern and storage rules of C13 hold by construction, and  *)
(* every adjoint pass takes exactly sum_k GW(L_k, min(B+1, L_k-1)) forward *)
(* steps (C13.block_opt).                                                  *)
(***************************************************************************)
EXTENDS GenTwoLevelCore, GWForm

CONSTANTS P, B, BinSt, K, MaxFwd, MaxPass     \* period, binomial_snapshots, their storage; bounds

VARIABLES g, bad, lastN0, consistent,
          pf,      \* forward steps run in the current adjoint pass
          pick     \* the resolution of the step choice: (len, units) |-> advance, fixed the first time it is
                   \* needed - a schedule is free to pick any optimal advance, but must pick the SAME one
                   \* every time (each further adjoint calculation is an exact repeat of the first, C09)
tvars2 == <<evars, avars, g, bad, lastN0, consistent, pf, pick>>

Ex == ExTab(P + 1)
Choices(len, u) == IF <<len, u>> \in DOMAIN pick THEN {pick[<<len, u>>]} ELSE OptOf(Ex, len, u)
GInit == TLInit
Succ == TLSucc(g, P, B, BinSt, Choices)
Fin(k) == TLFin(g, k)

Obs(gg, run) == [n |-> gg.n, r |-> gg.r, m |-> gg.m, x |-> 0, g |-> IF run THEN 1 ELSE 0,
                 u |-> <<IF BinSt = RAM THEN 1 ELSE 0, 1, 0, 0>>]

Profile == [online |-> TRUE, passes |-> 2, allmem |-> FALSE,
            limR |-> IF BinSt = RAM THEN B ELSE 0, limD |-> IF BinSt = DISK THEN B ELSE 0,
            period |-> P, perstep |-> FALSE]

Init == /\ ExecInit(Profile, Unknown) /\ APIInit /\ g = GInit /\ bad = {}
        /\ lastN0 = 0 /\ consistent = TRUE /\ pf = 0 /\ pick = <<>>

NBlocks == CeilDiv(maxN, P)
BlockLen(k) == Min((k + 1) * P, maxN) - k * P
RECURSIVE SumGW(_)
SumGW(k) == IF k < 0 THEN 0 ELSE GW(BlockLen(k), Min(B + 1, BlockLen(k) - 1)) + SumGW(k - 1)

GNext ==
  \E st \in Succ :
    /\ g' = st.gs
    /\ NextEffect(ONext, st.e)
    /\ ObsEffect(Obs(st.gs, TRUE))
    /\ bad' = bad \cup NextClauses(ONext, st.e) \cup ObsClausesNext(Obs(st.gs, TRUE)) \cup StateClausesNext
                  \cup (IF st.e.k = KER THEN C("C13.block_opt", pf = SumGW(NBlocks - 1)) ELSE {})
    /\ pf' = (IF st.e.k = KER THEN 0
              ELSE IF st.e.k = KF /\ phase = "rev" THEN pf + (st.e.b - st.e.a) ELSE pf)
    /\ lastN0' = (IF st.e.k = KF THEN st.e.a ELSE lastN0)
    /\ pick' = (IF g.pc \in {"adv1", "advk"}
                 THEN (TLKey(g, B) :> (st.e.b - st.e.a)) @@ pick
                 ELSE pick)
    /\ UNCHANGED consistent

GFin(k) ==
  LET out == Fin(k) IN
  /\ g' = out.gs
  /\ FinEffect(k, out.o)
  /\ ObsEffect(Obs(out.gs, started))
  /\ bad' = bad \cup FinClauses(k, out.o) \cup ObsClausesNext(Obs(out.gs, started))
                \cup FinObsClauses(k, out.o, Obs(out.gs, started), Known)
  /\ consistent' = (consistent /\ ~(out.o = FOk /\ ~Known /\ k <= lastN0))
  /\ UNCHANGED <<lastN0, pf, pick>>

Next == GNext \/ \E k \in -1..K : GFin(k)
Spec == Init /\ [][Next]_tvars2

Bound == /\ consistent /\ pass < MaxPass
         /\ (maxN = Unknown => told <= MaxFwd * P)
NothingFails == bad = {}
NoStuck == Succ # {}
ReachSecondPass == pass < 1
=============================================================================
