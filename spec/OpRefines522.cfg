SPECIFICATION Spec
CONSTANTS
  N = 5
  LimR = 2
  LimD = 2
  TB = 0
  MoveOnLast = TRUE
VIEW View
INVARIANT Refines
INVARIANT Projection
CHECK_DEADLOCK FALSE
