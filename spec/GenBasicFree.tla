----------------------------- MODULE GenBasicFree -----------------------------
(***************************************************************************)
(* Design-level check, no code in the loop: the generator models of        *)
(* GenBasic composed with the executor and the call protocol.  TLC         *)
(* explores every interleaving of next() and finalize(k), k in -1..K, up   *)
(* to Depth calls, and requires that NO clause of any property fails:      *)
(* every emitted action is allowed by Executor (C01-C04, C12), every       *)
(* observer value is what SchedAPI predicts (C08, C09, C11), every         *)
(* finalize outcome is the one of the guard (C10).                         *)
(***************************************************************************)
EXTENDS SchedAPI, GenBasic

CONSTANTS Cls, K, Depth
VARIABLES gs, bad, calls,
          lastN0,      \* start of the last Forward emitted
          consistent   \* FALSE once the client finalised at a step the last Forward did not even reach:
                       \* it carried out a Forward over steps it then says do not exist.  finalize
                       \* accepts that (C10: told >= k) and its outcome is still judged, but what a
                       \* literal execution means afterwards is undefined; such behaviours are not
                       \* explored further (CONSTRAINT Consistent).
gvars == <<evars, avars, gs, bad, calls, lastN0, consistent>>

Profile ==
  CASE Cls = "SingleMemory"   -> [online |-> TRUE, passes |-> 2, allmem |-> TRUE, limR |-> 0, limD |-> 0, period |-> 0, perstep |-> FALSE]
    [] Cls = "SingleDiskCopy" -> [online |-> TRUE, passes |-> 2, allmem |-> FALSE, limR |-> 0, limD |-> -1, period |-> 0, perstep |-> FALSE]
    [] Cls = "SingleDiskMove" -> [online |-> TRUE, passes |-> 1, allmem |-> FALSE, limR |-> 0, limD |-> -1, period |-> 0, perstep |-> FALSE]
    [] Cls = "None"           -> [online |-> TRUE, passes |-> 0, allmem |-> FALSE, limR |-> 0, limD |-> 0, period |-> 0, perstep |-> FALSE]

Init == /\ ExecInit(Profile, Unknown) /\ APIInit /\ gs = GenInit /\ bad = {} /\ calls = 0
        /\ lastN0 = 0 /\ consistent = TRUE

GNext ==
  LET out == GenStep(Cls, gs) IN
  /\ gs' = out.gs
  /\ NextEffect(out.o, out.e)
  /\ ObsEffect(GenObs(Cls, out.gs))
  /\ bad' = bad \cup NextClauses(out.o, out.e) \cup ObsClausesNext(GenObs(Cls, out.gs)) \cup StateClausesNext
  /\ lastN0' = (IF out.o = 0 /\ out.e.k = KF THEN out.e.a ELSE lastN0)
  /\ UNCHANGED consistent

GFin(k) ==
  LET out == GenFinalize(gs, k) IN
  /\ gs' = out.gs
  /\ FinEffect(k, out.o)
  /\ ObsEffect(GenObs(Cls, out.gs))
  /\ bad' = bad \cup FinClauses(k, out.o) \cup ObsClausesNext(GenObs(Cls, out.gs))
                \cup FinObsClauses(k, out.o, GenObs(Cls, out.gs), Known)
  /\ consistent' = (consistent /\ ~(out.o = 0 /\ ~Known /\ k <= lastN0))
  /\ UNCHANGED lastN0

Next == /\ calls < Depth /\ calls' = calls + 1
        /\ (GNext \/ \E k \in -1..K : GFin(k))
Spec == Init /\ [][Next]_gvars

Consistent == consistent
NothingFails == bad = {}
(* reachability (EXPECTED to be violated): the model does conclude / repeat *)
ReachSecondPass == pass < 1
ReachDone == phase # "done"
=============================================================================
