------------------------------- MODULE GenBasic -------------------------------
(***************************************************************************)
(* Generator models of the basic schedules (basic_schedules.py):           *)
(* SingleMemoryStorageSchedule, SingleDiskStorageSchedule (copy / move),   *)
(* NoneCheckpointSchedule - the online loop, finalize(), the reverse loop, *)
(* repetition and exhaustion - as a deterministic state machine over the   *)
(* object's own state gs = [pc, n, r, m, exh, run].                        *)
(*                                                                         *)
(* GenStep / GenFinalize are pure operators, used twice:                   *)
(*  - GenBasicFree: the model composed with Executor/SchedAPI; TLC         *)
(*    explores EVERY interleaving of next() and finalize(k) and checks     *)
(*    that no clause of any property ever fails (design level, no code);   *)
(*  - TraceGen: a recorded implementation trace is compared with the       *)
(*    model call by call (drift diagnostic, never a violation).            *)
(***************************************************************************)
EXTENDS CkptActions

MaxSize == Big + BigQ
AddMax(n) == IF n < Big THEN MaxSize + n ELSE n + BigQ      \* n + sys.maxsize in the embedding

GenInit == [pc |-> "fwd", n |-> 0, r |-> 0, m |-> Unknown, exh |-> FALSE, run |-> FALSE]

NoAct == Act(KNONE, 0, 0, FALSE, FALSE, NONE, NONE)
Out(o, e, gs) == [o |-> o, e |-> e, gs |-> gs]      \* o: 0 action, 1 StopIteration

(* next() *)
GenStep(cls, gs0) ==
  LET gs == [gs0 EXCEPT !.run = TRUE] IN
  CASE gs.pc = "stop" -> Out(1, NoAct, gs)
    [] gs.pc = "fwd" /\ gs.m = Unknown ->
         (CASE cls = "SingleMemory" ->
                 Out(0, Fwd(gs.n, AddMax(gs.n), FALSE, TRUE, WORK), [gs EXCEPT !.n = AddMax(gs.n)])
            [] cls = "None" ->
                 Out(0, Fwd(gs.n, AddMax(gs.n), FALSE, FALSE, NONE), [gs EXCEPT !.n = AddMax(gs.n)])
            [] OTHER ->
                 Out(0, Fwd(gs.n, gs.n + 1, FALSE, TRUE, DISK), [gs EXCEPT !.n = gs.n + 1]))
    [] gs.pc = "fwd" /\ gs.m # Unknown ->
         IF cls = "None" THEN Out(0, EndF, [gs EXCEPT !.pc = "stop", !.exh = TRUE])
                         ELSE Out(0, EndF, [gs EXCEPT !.pc = "rev"])
    [] gs.pc = "rev" /\ cls = "SingleMemory" ->
         IF gs.r = 0 THEN Out(0, Rev(gs.m, 0, FALSE), [gs EXCEPT !.r = gs.m])
                     ELSE Out(0, EndR, [gs EXCEPT !.r = 0])
    [] gs.pc = "rev" ->                                   \* SingleDisk: load the step before the adjoint
         IF gs.r < gs.m
           THEN LET n0 == gs.m - gs.r - 1 IN
                Out(0, IF cls = "SingleDiskMove" THEN Mov(n0, DISK, WORK) ELSE Cpy(n0, DISK, WORK),
                    [gs EXCEPT !.pc = "revstep", !.n = n0])
           ELSE IF cls = "SingleDiskMove"
                  THEN Out(0, EndR, [gs EXCEPT !.pc = "stop", !.exh = TRUE])
                  ELSE Out(0, EndR, [gs EXCEPT !.r = 0])
    [] gs.pc = "revstep" ->
         Out(0, Rev(gs.n + 1, gs.n, TRUE), [gs EXCEPT !.pc = "rev", !.r = gs.m - gs.n])

(* finalize(k): outcome 0 ok, 1 ValueError, 2 RuntimeError (schedule.py) *)
GenFinalize(gs, k) ==
  IF k < 1 THEN [o |-> 1, gs |-> gs]
  ELSE IF gs.m = Unknown
         THEN (IF gs.n >= k THEN [o |-> 0, gs |-> [gs EXCEPT !.n = k, !.m = k]] ELSE [o |-> 2, gs |-> gs])
  ELSE IF gs.n # k \/ gs.m # k THEN [o |-> 2, gs |-> gs] ELSE [o |-> 0, gs |-> gs]

(* the observers as the classes compute them *)
GenUses(cls) ==
  CASE cls = "SingleMemory" -> <<0, 0, 1, 0>>
    [] cls = "None" -> <<0, 0, 0, 0>>
    [] OTHER -> <<0, 1, 1, 0>>
GenObs(cls, gs) ==
  [n |-> gs.n, r |-> gs.r, m |-> gs.m,
   x |-> IF cls \in {"SingleDiskMove", "None"} /\ gs.exh THEN 1 ELSE 0,
   g |-> IF gs.run THEN 1 ELSE 0, u |-> GenUses(cls)]
=============================================================================
