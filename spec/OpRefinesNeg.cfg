SPECIFICATION Spec
CONSTANTS
  N = 3
  LimR = 1
  LimD = 1
  TB = 0
  MoveOnLast = FALSE
VIEW View
INVARIANT Refines
CHECK_DEADLOCK FALSE
