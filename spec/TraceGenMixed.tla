----------------------------- MODULE TraceGenMixed -----------------------------
(***************************************************************************)
(* code -> model: a recorded MixedCheckpointSchedule trace must be a       *)
(* behaviour of the mixed generator model (GenMixedCore) - at every next() *)
(* the emitted action has to be one the model allows (any optimal planner  *)
(* option, fixed per (len, units) on first use).  A mismatch is GEN.drift: *)
(* a DIAGNOSTIC, never by itself a violation of a listed property.         *)
(***************************************************************************)
EXTENDS TraceExec, GenMixedCore

VARIABLES g, ok, mt, pick,
          ptype      \* (len, units) |-> TRUE iff a reload decided "keep" (Copy), i.e. the option for that key is a
                     \* restart interval - but the trace has not yet shown WHICH interval (several options emit
                     \* the same Copy); the choice is then fixed by the Forward that follows
xvars == <<vars, g, ok, mt, pick, ptype>>

NS == T.p.max_n
SU == Min(Max(T.p.ram, 0), Max(NS - 1, 0))
St == T.p.st

IsNext == EvC(Ev) = CNext
Matches == {st \in SuccMixed(g, NS, SU, St, mt, pick) :
               /\ EvO(Ev) = ONext /\ st.e = EvAct(Ev)
               /\ (st.key \in DOMAIN ptype => ((st.opt[1] = "ICS") = ptype[st.key]))}
Ambiguous == Cardinality({st.opt : st \in Matches}) > 1

GenClauses ==
  IF ~ok \/ ~IsNext THEN {}
  ELSE IF g.pc = "stop" THEN C("GEN.drift", EvO(Ev) = OStop)
  ELSE C("GEN.drift", Matches # {})

GenEffect ==
  IF ~ok \/ ~IsNext \/ g.pc = "stop" THEN UNCHANGED <<g, ok, pick, ptype>>
  ELSE IF Matches = {} THEN ok' = FALSE /\ UNCHANGED <<g, pick, ptype>>
  ELSE LET st == CHOOSE x \in Matches : TRUE IN      \* all matches lead to the same generator state
       /\ g' = st.gs /\ ok' = TRUE
       /\ pick' = (IF st.key = NoKey \/ Ambiguous THEN pick ELSE (st.key :> st.opt) @@ pick)
       /\ ptype' = (IF st.key # NoKey /\ Ambiguous THEN (st.key :> (st.opt[1] = "ICS")) @@ ptype ELSE ptype)

XInit == TraceInit /\ g = GenMixInit /\ ok = TRUE /\ mt = MixTab(Max(NS, 1)) /\ pick = <<>> /\ ptype = <<>>
XNext == Step(GenClauses) /\ GenEffect /\ UNCHANGED mt
XSpec == XInit /\ [][XNext]_xvars
=============================================================================
