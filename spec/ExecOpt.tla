------------------------------- MODULE ExecOpt -------------------------------
(***************************************************************************)
(* The optimality search: ExecOptCore (every executable schedule, with its *)
(* cost) started from every instance of a file.  An INSTANCE fixes n, the  *)
(* unit budgets, the cost vector and the CLAIM: the cost the               *)
(* implementation achieved (from validated traces).  TLC explores every    *)
(* behaviour whose cost can still end below the claim; any completed       *)
(* behaviour cheaper than the claim is printed as a verdict.               *)
(***************************************************************************)
EXTENDS ExecOptCore, Json, IOUtils

Insts == JsonDeserialize(IOEnv.INST_FILE)
  \* sequence of [idx, n, cm, cd (-1 = unbounded), uf, wd, rd, deps (0/1), oneread (0/1), claim]

Init == \E j \in 1..Len(Insts) : InitFor(Insts[j])
Spec == Init /\ [][Next]_vars

(* A completed adjoint calculation cheaper than the implementation's. *)
Cheaper == (a = 0 /\ cost < par.claim) => PrintT(<<"@V", par.idx, cost, "V@">>)
NoCheaper == ~(a = 0 /\ cost < par.claim)
=============================================================================
