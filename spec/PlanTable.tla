------------------------------ MODULE PlanTable ------------------------------
(***************************************************************************)
(* C16(a): the tabulated planner (used when numba is importable) and the   *)
(* memoised planner prescribe the same step kind, step length and cost for *)
(* every sub-problem.  One state per table entry (n, s); the entry is      *)
(*   [n, s, m: <<kind, len, cost>> memoised, t: <<kind, len, cost>> table] *)
(* The cost component is additionally checked against the mixed            *)
(* recurrence by OptTables (claims of kind "mix").                         *)
(***************************************************************************)
EXTENDS Integers, Sequences, TLC, Json, IOUtils

Entries == JsonDeserialize(IOEnv.PLAN_FILE)
VARIABLE x
Init == x \in 1..Len(Entries)
Next == FALSE /\ UNCHANGED x
Spec == Init /\ [][Next]_x

E == Entries[x]
Verdict == (E.m # E.t) => PrintT(<<"@V", x, "V@">>)
=============================================================================
