-------------------------------- MODULE ExecInd --------------------------------
(***************************************************************************)
(* An inductive argument for UNBOUNDED n (Apalache): the core of the       *)
(* executor - forward position, adjoint position, the dependency data in   *)
(* WORK and a set of restart checkpoints - with exactly the guards of      *)
(* Executor.tla (C01.fwd_start, C12.overshoot, C12.deps_adjacent,          *)
(* C02.rev_order, C01.rev_deps, C01.load_exists, C01.load_before_adj,      *)
(* C12.load_clean), for a symbolic number of steps N.  IndInv is           *)
(* inductive (Init => IndInv; IndInv /\ Next => IndInv') and implies the   *)
(* safety statements of C02/C12: the adjoint never passes 0, the forward   *)
(* never stands beyond the adjoint position, dependency data in WORK is    *)
(* that of the one step before the adjoint, checkpoints lie below the      *)
(* adjoint position once it has passed them only transiently.              *)
(* Checked with:  apalache-mc check --init=IndInit --inv=IndInv --length=1 *)
(*                apalache-mc check --init=Init --inv=IndInv --length=0    *)
(***************************************************************************)
EXTENDS ExecIndCore, Apalache

ConstInit == N \in 1..1000000

\* an arbitrary state satisfying the invariant (Gen: Apalache's value generator; at most 6 checkpoints)
IndInit == /\ fwd = Gen(1) /\ adj = Gen(1) /\ deps = Gen(1) /\ cks = Gen(6) /\ ef \in BOOLEAN
           /\ IndInv
=============================================================================
