------------------------------ MODULE OpMachine ------------------------------
(***************************************************************************)
(* The operation machine of the hierarchical adjoint-computation model      *)
(* (Aupy et al. 2016, Herrmann & Pallez 2020) - the layer BELOW the action  *)
(* stream: checkpoint_schedules.hrevolve_sequences produces sequences of    *)
(* operations F, B, W, R, D, WF, DF on K storage levels, which               *)
(* RevolveCheckpointSchedule._iterator then converts into actions.           *)
(*                                                                           *)
(* A chain of l forward steps needs l+1 backward operations B_{l+1->l} ..   *)
(* B_{1->0}; B_{n->n-1} needs the tape of the forward step n-1 -> n, which  *)
(* is recorded by the Forward(n-1, n) that follows a Write_Forward(n).      *)
(*                                                                           *)
(* What the code actually does, named: the sequences never discard a        *)
(* checkpoint on the upper levels and discard some that were never written  *)
(* on level 0, because the consumer (the conversion to actions) RELEASES A  *)
(* CHECKPOINT AT ITS LAST READ and ignores Discard.  The machine therefore   *)
(* takes `last` (no later Read of the same slot) as an argument of Read, and *)
(* a Discard of an absent checkpoint is the named deviation                  *)
(*                                                                           *)
(* Same style as Executor: every requirement is a NAMED CLAUSE and the       *)
(* effect of an operation is TOTAL.                                          *)
(***************************************************************************)
EXTENDS Integers, Sequences, FiniteSets

OF == 0   OB == 1   OW == 2   OR == 3   OD == 4   OWF == 5   ODF == 6   OX == 99
NoBuf == -1
Unl == -1                          \* unlimited capacity

(* An operation is <<type, a, b, lev>>:  F/B: steps a -> b;  others: step a on level lev. *)
OTy(o) == o[1]   OA(o) == o[2]   OBb(o) == o[3]   OLev(o) == o[4]

(* P: [l, K, cap, w, r, uf, ub, pre, keep, mk, claim, memwf]                               *)
(*   cap/w/r/claim: sequences over levels 1..K (level k-1 of the code); pre: stored on entry *)
OpInit(P) ==
  [buf |-> 0,
   st |-> [k \in 1..P.K |-> {P.pre[x][2] : x \in {y \in 1..Len(P.pre) : P.pre[y][1] = k - 1}}],
   ext |-> [k \in 1..P.K |-> [n \in {P.pre[x][2] : x \in {y \in 1..Len(P.pre) : P.pre[y][1] = k - 1}} |-> P.l + 1]],
   pw |-> <<0, 0>>, fresh |-> FALSE,
   wrote |-> [k \in 1..P.K |-> {}],
   armed |-> 0, tape |-> 0, adj |-> P.l + 1, t |-> 0,
   wlog |-> [k \in 1..P.K |-> <<>>]]

LevOK(P, o) == OLev(o) \in 0..(P.K - 1)
LV(P, o) == IF LevOK(P, o) THEN OLev(o) + 1 ELSE 1
Cl(name, ok) == IF ok THEN {} ELSE {name}
Upd(f, n, v) == [x \in (DOMAIN f) \cup {n} |-> IF x = n THEN v ELSE f[x]]
Rst(f, S) == [x \in (DOMAIN f) \cap S |-> f[x]]

(* Preconditions of the conversion to actions (named, part of the machine): a Write or a     *)
(* Write_Forward is carried out by the Forward that IMMEDIATELY follows it, and the          *)
(* checkpoint then covers the steps of that Forward (its extent `ext`): it may be read only  *)
(* while the adjoint has not yet passed beyond that extent (C01: "covers the steps still to  *)
(* be recomputed").  A slot (level, step) is written at most once: the converter's          *)
(* last-read rule is per (level, step) over the whole list, not per write - the replay of    *)
(* TLC-generated programs into the real converter (harness/opreplay.py) showed that a        *)
(* program re-writing a released slot is converted to a stream that overwrites (C01).        *)
Pending(s) == s.pw[1] # 0 \/ s.armed # 0
ConvPre(s, o) ==
  Cl("OP.write_then_forward", Pending(s) => (OTy(o) = OF /\ (s.pw[1] # 0 => OA(o) = s.pw[2])))

OpClauses(P, s, o, last) ==
  LET a == OA(o)  b == OBb(o)  k == LV(P, o) IN
  ConvPre(s, o) \cup
  CASE OTy(o) = OF ->
         Cl("OP.fwd_start", s.buf = a)
         \cup Cl("OP.fwd_range", a >= 0 /\ a < b /\ b <= s.adj)
         \cup Cl("OP.fwd_armed", s.armed # 0 => (a = s.armed - 1 /\ b = s.armed))
    [] OTy(o) = OB ->
         Cl("OP.bwd_order", a = s.adj /\ b = a - 1 /\ a >= 1)
         \cup Cl("OP.bwd_tape", s.tape = a /\ s.armed = 0)
    [] OTy(o) = OW ->
         Cl("OP.level", LevOK(P, o))
         \cup Cl("OP.write_buf", s.buf = a)
         \cup Cl("OP.write_fresh", a \notin s.st[k])
         \cup Cl("OP.write_once", a \notin s.wrote[k])     \* the converter identifies a checkpoint by (level, step)
         \cup Cl("OP.capacity", P.cap[k] = Unl \/ Cardinality(s.st[k] \cup {a}) <= P.cap[k])
    [] OTy(o) = OR ->
         Cl("OP.level", LevOK(P, o))
         \cup Cl("OP.read_exists", a \in s.st[k])
         \cup Cl("OP.read_idle", s.armed = 0 /\ s.tape = 0 /\ ~s.fresh)    \* C12: nothing unused in the buffer
         \cup Cl("OP.read_after_turn", s.adj <= P.l)
         \cup Cl("OP.read_covers", a \in s.st[k] => s.ext[k][a] >= s.adj)
         \cup Cl("OP.read_useful", a < s.adj)
         \cup Cl("OP.read_final", a = s.adj - 1 => last)
    [] OTy(o) = OD ->
         Cl("OP.level", LevOK(P, o))
         \cup Cl("OP.discard_redundant", a \notin s.st[k])      \* the conversion ignores Discard: the last read releases
    [] OTy(o) = OWF ->
         Cl("OP.level", LevOK(P, o))
         \cup Cl("OP.wf_position", s.buf = a - 1 /\ a = s.adj)
         \cup Cl("OP.wf_free", s.armed = 0 /\ s.tape = 0)
    [] OTy(o) = ODF ->
         Cl("OP.df_holds", s.tape = a /\ s.adj = a - 1)
    [] OTHER -> {"OP.vocabulary"}

OpCost(P, o) ==
  CASE OTy(o) = OF  -> (OBb(o) - OA(o)) * P.uf
    [] OTy(o) = OB  -> P.ub
    [] OTy(o) = OW  -> P.w[LV(P, o)]
    [] OTy(o) = OR  -> P.r[LV(P, o)]
    [] OTy(o) = OWF -> P.w[LV(P, o)]
    [] OTHER -> 0

OpEffect(P, s, o, last) ==
  LET a == OA(o)  b == OBb(o)  k == LV(P, o)
      s1 == [s EXCEPT !.t = @ + OpCost(P, o)] IN
  CASE OTy(o) = OF  -> [s1 EXCEPT !.buf = b, !.tape = IF s.armed # 0 THEN s.armed ELSE @, !.armed = 0, !.pw = <<0, 0>>, !.fresh = FALSE,
                                  !.ext = IF s.pw[1] # 0 /\ s.pw[2] \in s.st[s.pw[1]]
                                            THEN [@ EXCEPT ![s.pw[1]] = Upd(@, s.pw[2], b)] ELSE @]
    [] OTy(o) = OB  -> [s1 EXCEPT !.adj = b, !.buf = NoBuf, !.pw = <<0, 0>>]
    [] OTy(o) = OW  -> [s1 EXCEPT !.st[k] = @ \cup {a}, !.ext[k] = Upd(@, a, a), !.pw = <<k, a>>, !.wrote[k] = @ \cup {a}, !.wlog[k] = Append(@, a)]
    [] OTy(o) = OR  -> [s1 EXCEPT !.buf = a, !.fresh = TRUE, !.st[k] = IF last THEN @ \ {a} ELSE @,
                                  !.ext[k] = IF last THEN Rst(@, s.st[k] \ {a}) ELSE @, !.pw = <<0, 0>>]
    [] OTy(o) = OD  -> [s1 EXCEPT !.st[k] = @ \ {a}, !.ext[k] = Rst(@, s.st[k] \ {a}), !.pw = <<0, 0>>]
    [] OTy(o) = OWF -> [s1 EXCEPT !.armed = a, !.wlog[k] = IF P.memwf THEN Append(@, a) ELSE @]
    [] OTy(o) = ODF -> [s1 EXCEPT !.tape = 0]
    [] OTHER -> s1

(* When the sequence has been consumed. `keep`: levels that are allowed to stay filled  *)
(* (the unlimited disk of Disk-Revolve, the pre-stored input of 1D-Revolve).            *)
EndClauses(P, s) ==
  Cl("OP.complete", s.adj = 0)
  \cup Cl("OP.tape_clean", s.tape = 0 /\ s.armed = 0)
  \cup Cl("OP.clean", \A k \in 1..P.K : (P.cap[k] # Unl /\ ~ \E x \in 1..Len(P.keep) : P.keep[x] = k) => s.st[k] = {})
  \cup Cl("OP.makespan", P.mk = -1 \/ s.t = P.mk)
  \cup Cl("OP.storage_attr", \A k \in 1..P.K : P.claim[k] = <<-1>> \/ P.claim[k] = s.wlog[k])
=============================================================================
