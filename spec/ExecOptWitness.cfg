SPECIFICATION Spec
CONSTRAINT Prune
INVARIANT NoCheaper
CHECK_DEADLOCK FALSE
