SPECIFICATION Spec
CONSTANTS
  NMax = 8
  St = 0
INVARIANT ReachStop
CHECK_DEADLOCK FALSE
