SPECIFICATION FairSpec
CONSTANTS
  NMax = 8
  St = 1
PROPERTY Terminates
CHECK_DEADLOCK FALSE
