----------------------------- MODULE ActionPairs -----------------------------
(***************************************************************************)
(* C18(b): judge what the real action objects did.  One state per ordered  *)
(* pair (i, j) of the universe; the oracle for == / != is record equality  *)
(* of the specification's action values, the oracle for len / iteration /  *)
(* membership is StepsOf.                                                   *)
(*   answer codes: 0 False, 1 True, 2/3 non-bool, 4 raised                  *)
(***************************************************************************)
EXTENDS ActionUniverse, Json, IOUtils, TLC

R == JsonDeserialize(IOEnv.RESULT_FILE)
N == Len(R.acts)

VARIABLES i, j
vars == <<i, j>>

A(x) == LET r == R.acts[x] IN Act(r.k, r.a, r.b, r.wi, r.wd, r.s, r.t)
C(name, ok) == IF ok THEN {} ELSE {name}
SeqRange(s) == {s[x] : x \in DOMAIN s}

PairClauses ==
       C("C18.eq", R.eq[i][j] = (IF A(i) = A(j) THEN 1 ELSE 0))
  \cup C("C18.ne", R.ne[i][j] = (IF A(i) = A(j) THEN 0 ELSE 1))

ActionClauses ==
  LET r == R.acts[i]  e == A(i) IN
       C("BIND.universe", e \in Universe)
  \cup C("C18.repr_roundtrip", r.rr = 1)
  \cup (IF e.k \in {KF, KR}
        THEN      C("C18.steps.len", r.ln = e.b - e.a \/ r.ln = e.a - e.b)
             \cup C("C18.steps.iter", r.it = <<-1>> \/ (r.it = StepsOf(e) /\ r.it2 = StepsOf(e)))
             \cup C("C18.steps.contains",
                    \A m \in SeqRange(r.mem) :
                       m[2] = (IF Min(e.a, e.b) <= m[1] /\ m[1] < Max(e.a, e.b) THEN 1 ELSE 0))
        ELSE {})

Init == i \in 1..N /\ j \in 1..N
Next == FALSE /\ UNCHANGED vars
Spec == Init /\ [][Next]_vars

Verdict ==
  LET cl == PairClauses \cup (IF j = 1 THEN ActionClauses ELSE {}) IN
  cl # {} => PrintT(<<"@V", i, j, cl, "V@">>)
=============================================================================
