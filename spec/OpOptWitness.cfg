SPECIFICATION Spec
VIEW View
CONSTRAINT Prune
INVARIANT NoCheaper
CHECK_DEADLOCK FALSE
