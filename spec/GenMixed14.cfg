SPECIFICATION Spec
CONSTANTS
  NMax = 14
  St = 0
INVARIANT NothingFails
INVARIANT OptimalSteps
INVARIANT NoStuck
CHECK_DEADLOCK FALSE
