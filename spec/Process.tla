------------------------------- MODULE Process -------------------------------
(***************************************************************************)
(* spec -> code (C15): histories of ONE PROCESS in which several schedule  *)
(* objects are constructed, advanced and observed in an arbitrary          *)
(* interleaving, mixed with calls of the module-level helper functions     *)
(* (which memoise).                                                        *)
(*                                                                         *)
(* The specification has NO variable shared between objects: `objs` only   *)
(* records which configuration each object was built from.  That absence   *)
(* IS the property: the stream of an object is a function of its own       *)
(* configuration and of how often next() was called on it, whatever else   *)
(* happened in the process (TraceSibling compares it with the stream of    *)
(* the same configuration in a fresh interpreter).                         *)
(*   <<1, c>>        construct an object from configuration c              *)
(*   <<2, i>>        next() on object i                                     *)
(*   <<3, i>>        read every observer of object i                        *)
(*   <<4, f, n, s>>  call helper f with (n, s)                              *)
(***************************************************************************)
EXTENDS Integers, Sequences, TLC, IOUtils

NCfg == atoi(IOEnv.PROC_NCFG)
MaxObj == atoi(IOEnv.PROC_MAXOBJ)
D == atoi(IOEnv.PROC_D)
HN == atoi(IOEnv.PROC_HELPER_N)      \* helpers are called with n in 2..HN (step 3), s in {1, n-1}
NF == atoi(IOEnv.PROC_NF)            \* number of helper functions in the alphabet

VARIABLES objs, h
vars == <<objs, h>>

Init == objs = <<>> /\ h = <<>>

Construct == /\ Len(objs) < MaxObj
             /\ \E c \in 1..NCfg : objs' = Append(objs, c) /\ h' = Append(h, <<1, c>>)
NextOn == \E i \in 1..Len(objs) : h' = Append(h, <<2, i>>) /\ UNCHANGED objs
Observe == \E i \in 1..Len(objs) : h' = Append(h, <<3, i>>) /\ UNCHANGED objs
Helper == /\ HN >= 2
          /\ \E f \in 1..NF, n \in {x \in 2..HN : x % 3 = 2}, s \in {1, 2} :
               h' = Append(h, <<4, f, n, IF s = 1 THEN 1 ELSE n - 1>>) /\ UNCHANGED objs

Next == Len(h) < D /\ (Construct \/ NextOn \/ Observe \/ Helper)
Spec == Init /\ [][Next]_vars

Emit == Len(h) = D => PrintT(<<"@V", h, "V@">>)
=============================================================================
