--------------------------- MODULE TraceGenTwoLevel ---------------------------
(***************************************************************************)
(* code -> model: a recorded TwoLevel trace (any Client history: next() and *)
(* finalize(k) in any order, several adjoint passes) must be a behaviour of *)
(* the TwoLevel generator model (GenTwoLevelCore): at every next() the      *)
(* emitted action is one the model allows in its current state - the step   *)
(* size any Bellman-optimal one, but the SAME one every time the same       *)
(* (length, units) sub-problem recurs - and every finalize(k) has the        *)
(* model's outcome.  A mismatch is GEN.drift: a DIAGNOSTIC, never by itself *)
(* a violation of a listed property; the rest of the trace is not compared. *)
(***************************************************************************)
EXTENDS TraceExec, GenTwoLevelCore

VARIABLES g, ok, ex, pick
xvars == <<vars, g, ok, ex, pick>>

PP == T.p.period
BB == Max(T.p.ram, 0)
St == T.p.st
Ch(len, u) == IF <<len, u>> \in DOMAIN pick THEN {pick[<<len, u>>]} ELSE OptOf(ex, len, u)

IsNext == EvC(Ev) = CNext
IsFin == EvC(Ev) = CFin
Matches == {st \in TLSucc(g, PP, BB, St, Ch) : EvO(Ev) = ONext /\ st.e = EvAct(Ev)}
FinOut == TLFin(g, Ev[4])

GenClauses ==
  IF ~ok THEN {}
  ELSE IF IsNext THEN C("GEN.drift", Matches # {})
  ELSE IF IsFin THEN C("GEN.drift", FinOut.o = EvO(Ev))
  ELSE {}

GenEffect ==
  IF ~ok \/ ~(IsNext \/ IsFin) THEN UNCHANGED <<g, ok, pick>>
  ELSE IF IsFin THEN /\ ok' = (FinOut.o = EvO(Ev)) /\ g' = FinOut.gs /\ UNCHANGED pick
  ELSE IF Matches = {} THEN ok' = FALSE /\ UNCHANGED <<g, pick>>
  ELSE LET st == CHOOSE x \in Matches : TRUE IN
       /\ g' = st.gs /\ ok' = TRUE
       /\ pick' = (IF g.pc \in {"adv1", "advk"} THEN (TLKey(g, BB) :> (st.e.b - st.e.a)) @@ pick ELSE pick)

XInit == TraceInit /\ g = TLInit /\ ok = TRUE /\ ex = ExTab(Max(PP, 1) + 1) /\ pick = <<>>
XNext == Step(GenClauses) /\ GenEffect /\ UNCHANGED ex
XSpec == XInit /\ [][XNext]_xvars
=============================================================================
