SPECIFICATION Spec
CONSTANTS
  N = 2
  LimR = 1
  LimD = 1
  Passes = 2
  AllMem = FALSE
VIEW ViewRepeat
INVARIANT TypeOK
INVARIANT WorkInvariant
INVARIANT NeverLost
INVARIANT ReversedIsSuffix
INVARIANT DoneMeansReversedAll
INVARIANT CleanAtEnd
PROPERTY AdjBackwardsOnly
PROPERTY NoDoubleReverse
CHECK_DEADLOCK FALSE
CONSTRAINT PassBound
