---------------------------- MODULE CkptActions ----------------------------
(***************************************************************************)
(* The value universe of checkpoint_schedules: storage types, the six      *)
(* action kinds, and the pure operators on actions that the properties     *)
(* talk about (well-formedness, steps covered, storages touched, cost).    *)
(*                                                                         *)
(* An action is a record [k, a, b, wi, wd, s, t]:                          *)
(*   Forward(n0,n1,write_ics,write_adj_deps,storage)                       *)
(*        k = KF, a = n0, b = n1, wi, wd, s = storage                      *)
(*   Reverse(n1,n0,clear_adj_deps)   k = KR, a = n1, b = n0, wi = clear    *)
(*   Copy(n,from,to) / Move(n,from,to)  k = KC / KM, a = n, s = from, t=to *)
(*   EndForward() / EndReverse()     k = KEF / KER                         *)
(* Unused fields are 0 (integers / flags) or NONE (storages).              *)
(*                                                                         *)
(* Step numbers are TLC integers.  The library also uses multiples of      *)
(* sys.maxsize (un-finalised online schedules); the harness embeds         *)
(* q*sys.maxsize + r order-preservingly as Big + q*BigQ + r, so equality   *)
(* and order - all the spec needs of such values - are the integer ones.   *)
(***************************************************************************)
EXTENDS Integers, Sequences, FiniteSets

RAM == 0   DISK == 1   WORK == 2   NONE == 3   STOTHER == 4
Storages == {RAM, DISK, WORK, NONE}
Stores == {RAM, DISK}

KF == 0  KR == 1  KC == 2  KM == 3  KEF == 4  KER == 5  KNONE == 9

Big == 1000000000
BigQ == 1000000
Weird == 2000000000
NoInt == -7
Inf == 2000000001          \* larger than every embedded step number
Unknown == -1
Undef == -1

Min(x, y) == IF x <= y THEN x ELSE y
Max(x, y) == IF x >= y THEN x ELSE y

Act(k, a, b, wi, wd, s, t) == [k |-> k, a |-> a, b |-> b, wi |-> wi, wd |-> wd, s |-> s, t |-> t]
Fwd(n0, n1, wi, wd, st) == Act(KF, n0, n1, wi, wd, st, NONE)
Rev(n1, n0, clr)        == Act(KR, n1, n0, clr, FALSE, NONE, NONE)
Cpy(n, from, to)        == Act(KC, n, 0, FALSE, FALSE, from, to)
Mov(n, from, to)        == Act(KM, n, 0, FALSE, FALSE, from, to)
EndF                    == Act(KEF, 0, 0, FALSE, FALSE, NONE, NONE)
EndR                    == Act(KER, 0, 0, FALSE, FALSE, NONE, NONE)

IsStep(x) == x >= 0 /\ x < Weird

(* C18: the shape rules of the statement (value part; Python types are     *)
(* checked where they are observable, in the trace specification).         *)
WellFormed(e) ==
  CASE e.k = KF -> /\ IsStep(e.a) /\ IsStep(e.b) /\ e.a < e.b
                   /\ e.s \in Storages
                   /\ (e.s \in Stores => (e.wi \/ e.wd))
                   /\ (e.s = NONE => (~e.wi /\ ~e.wd))
    [] e.k = KR -> IsStep(e.a) /\ IsStep(e.b) /\ e.a > e.b
    [] e.k \in {KC, KM} -> IsStep(e.a) /\ e.s \in Stores /\ e.t \in Storages
    [] e.k \in {KEF, KER} -> TRUE
    [] OTHER -> FALSE

(* The steps an action covers, in the order iteration yields them. *)
StepsOf(e) ==
  CASE e.k = KF -> [i \in 1..(e.b - e.a) |-> e.a + i - 1]
    [] e.k = KR -> [i \in 1..(e.a - e.b) |-> e.a - i]
    [] OTHER -> <<>>

(* C11: does the action write a checkpoint to, or copy/move one from or to, storage st *)
Touches(e, st) ==
  CASE e.k = KF -> e.s = st
    [] e.k \in {KC, KM} -> e.s = st \/ e.t = st
    [] OTHER -> FALSE

(* C07: cost of one action under the cost vector cv = [uf, ub, wd, rd],    *)
(* n = true number of steps (a Forward never runs past it).                *)
Cost(e, cv, n) ==
  CASE e.k = KF -> cv.uf * (Min(e.b, n) - e.a) + (IF e.s = DISK THEN cv.wd ELSE 0)
    [] e.k = KR -> cv.ub * (e.a - e.b)
    [] e.k \in {KC, KM} -> (IF e.s = DISK /\ e.t = WORK THEN cv.rd ELSE 0)
                           + (IF e.t = DISK THEN cv.wd ELSE 0)
    [] OTHER -> 0
=============================================================================
