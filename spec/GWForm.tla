------------------------------- MODULE GWForm -------------------------------
(***************************************************************************)
(* Closed forms, independent of the code:                                  *)
(*   GW(n, s)  Griewank & Walther (2000): the minimal total number of      *)
(*             forward steps to reverse n steps with s restart checkpoints *)
(*             (library convention: the n dependency-producing steps are   *)
(*             counted):  n + t*n - beta(s+1, t-1),                         *)
(*             beta(s, t-1) < n <= beta(s, t),  beta(s, t) = C(s+t, s).     *)
(*   Period(cm, uf, wd, rd)  Aupy & Herrmann (2017): the period of         *)
(*             Periodic-Disk-Revolve: beta(cm, t) for the least t with     *)
(*             beta(cm+1, t) * uf > wd + rd.                                *)
(***************************************************************************)
EXTENDS Integers

GMin(x, y) == IF x <= y THEN x ELSE y
GBig == 1000000000

(* beta(s, t) = C(s + t, s), computed incrementally while it stays below a bound *)
RECURSIVE BetaUpTo(_, _, _, _, _)
\* smallest t with beta(s,t) >= n, returned with beta(s+1, t-1):  <<t, beta(s+1,t-1)>>
\* cur = beta(s, t), nxt = beta(s+1, t-1)
BetaUpTo(n, s, t, cur, nxt) ==
  IF cur >= n THEN <<t, nxt>>
  ELSE BetaUpTo(n, s, t + 1, (cur * (s + t + 1)) \div (t + 1),
                IF t = 0 THEN 1 ELSE (nxt * (s + 1 + t)) \div t)

(* total = n + t*n - beta(s+1, t-1)  with beta(s,t-1) < n <= beta(s,t) *)
GW(n, s) ==
  IF n = 1 THEN 1
  ELSE IF s < 1 THEN GBig
  ELSE LET r == BetaUpTo(n, s, 0, 1, 0) IN n + r[1] * n - r[2]


RECURSIVE Beta(_, _)
Beta(s, t) == IF t <= 0 THEN (IF t = 0 THEN 1 ELSE 0) ELSE (Beta(s, t - 1) * (s + t)) \div t

RECURSIVE PeriodFrom(_, _, _, _, _)
PeriodFrom(cm, uf, wd, rd, t) ==
  IF Beta(cm + 1, t) * uf > wd + rd THEN Beta(cm, t) ELSE PeriodFrom(cm, uf, wd, rd, t + 1)
Period(cm, uf, wd, rd) == PeriodFrom(cm, uf, wd, rd, 0)
=============================================================================
