------------------------------ MODULE ExecRefines ------------------------------
(***************************************************************************)
(* ExecOpt is a sound abstraction of Executor: every step of a conforming  *)
(* stream (ExecFree: strict Executor actions, budgets respected) is, under *)
(* the state projection below, one step of ExecOpt with the same cost      *)
(* increment, or leaves the abstract state unchanged.  Hence every         *)
(* executable schedule is a behaviour of the space the optimality search   *)
(* explores, with exactly the cost the search compares against (C05-C07).  *)
(*                                                                         *)
(* The projection treats the pair  Forward(a-1, a, deps -> WORK); Reverse  *)
(* as the single abstract step StepRev (the step whose dependencies are in *)
(* WORK counts as reversed), and forgets checkpoints at or beyond the      *)
(* adjoint position.  The universe is the operation model of Revolve /     *)
(* H-Revolve: no direct RAM<->DISK transfer; dependency checkpoints only   *)
(* in the Mixed instance (Deps = TRUE, one pool of RAM units).             *)
(***************************************************************************)
EXTENDS ExecFree

CONSTANT Deps        \* TRUE: units may hold one step's adjoint dependencies (Mixed)
CONSTANTS EOUF, EOWD, EORD     \* the cost vector

DepsReady == ~IsEmpty(wDeps) /\ wDeps = <<N - adj - 1, N - adj>>
AAbs == (N - adj) - (IF DepsReady THEN 1 ELSE 0)
PosAbs == IF fwd = Undef \/ fwd >= AAbs THEN -1 ELSE fwd
RamAbs == {n \in DOMAIN ram : ram[n].wi /\ n < AAbs}
DiskAbs == {n \in DOMAIN disk : disk[n].wi /\ n < AAbs}
DepAbs == {n \in DOMAIN ram : ram[n].wd /\ ~ram[n].wi /\ n < AAbs}
CostAbs == EOUF * cnt.nF + EOWD * cnt.nDW + EORD * cnt.nDR

Inst == [idx |-> 1, n |-> N, cm |-> LimR, cd |-> LimD, uf |-> EOUF, wd |-> EOWD, rd |-> EORD,
         deps |-> IF Deps THEN 1 ELSE 0, oneread |-> 0, claim |-> 0]

EO == INSTANCE ExecOptCore WITH par <- Inst, pos <- PosAbs, a <- AAbs, ram <- RamAbs, disk <- DiskAbs,
                                dep <- DepAbs, cost <- CostAbs

RUniverse ==
  {e \in Universe :
     /\ WellFormed(e)
     /\ (e.k \in {KC, KM} => e.t \in {WORK, NONE})                    \* no RAM<->DISK transfer
     /\ (e.k = KF /\ e.s \in Stores /\ e.wd => (Deps /\ e.s = RAM))   \* dependency units: Mixed only
     /\ (e.k = KF /\ e.s = WORK => ~e.wi)}                            \* restart data is stored, not kept in WORK

RNext ==
  \E e \in RUniverse :
    /\ Do(e)
    /\ StateClausesNext = {}
    /\ revd' = revd

RSpec == Init /\ [][RNext]_fvars

Refines == [][EO!Next]_<<PosAbs, AAbs, RamAbs, DiskAbs, DepAbs, CostAbs>>
(* negative control (EXPECTED to be violated): without the combined step StepRev the *)
(* projection cannot explain a dependency-producing Forward                          *)
RefinesWithoutStepRev ==
  [][EO!Advance \/ EO!Overshoot \/ EO!StoreDeps \/ EO!RevStored \/ EO!LoadRam \/ EO!LoadDisk \/ EO!Discard]_<<PosAbs, AAbs, RamAbs, DiskAbs, DepAbs, CostAbs>>
InitOK == (phase = "fwd" /\ told = 0 /\ adj = 0 /\ fwd = 0 /\ DOMAIN ram = {} /\ DOMAIN disk = {})
             => (PosAbs = 0 /\ AAbs = N /\ CostAbs = 0)
=============================================================================
