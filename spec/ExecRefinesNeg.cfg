SPECIFICATION RSpec
CONSTANTS
  N = 4
  LimR = 1
  LimD = 1
  Passes = 1
  AllMem = FALSE
  Deps = FALSE
  EOUF = 2
  EOWD = 3
  EORD = 1
VIEW View
INVARIANT InitOK
PROPERTY RefinesWithoutStepRev
CHECK_DEADLOCK FALSE
