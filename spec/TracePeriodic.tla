---------------------------- MODULE TracePeriodic ----------------------------
(***************************************************************************)
(* C19: PeriodicDiskRevolve really is periodic, with a period independent  *)
(* of n.  m = Period(cm, uf, wd, rd) is the closed form of Aupy & Herrmann *)
(* (2017) (GWForm.tla) - one value per (RAM units, costs), the same for    *)
(* every n.  History variables:                                            *)
(*   dw     steps at which a DISK checkpoint was written before EndForward *)
(*   reads  DISK step |-> number of loads of that checkpoint from DISK     *)
(*   seg    segment index |-> forward steps run inside that segment        *)
(* "More than m steps remain" is read on the chain of the Aupy-Herrmann    *)
(* model, which has N - 1 forward steps (see DESIGN.md section 7).         *)
(***************************************************************************)
EXTENDS TraceExec, GWForm

VARIABLES dw, reads, seg,
          M, Q     \* the period and the number of full periodic segments (constant along a trace)
xvars == <<vars, dw, reads, seg, M, Q>>

CMem == T.p.ram
NSteps == T.p.max_n
ExpectedFor(m) == {c \in 0..(NSteps - 1) : c % m = 0 /\ (NSteps - 1) - c > m}
Expected == ExpectedFor(M)
SegLen(k) == IF k < Q THEN M ELSE NSteps - Q * M
(* steps of [lo, hi) that fall into segment k: [k*M, (k+1)*M) for k < Q, [Q*M, oo) for k = Q *)
StepsInSeg(k, lo, hi) ==
  LET a0 == Max(lo, k * M)
      b0 == IF k < Q THEN Min(hi, (k + 1) * M) ELSE hi IN
  Max(0, b0 - a0)
Seg(k) == IF k \in DOMAIN seg THEN seg[k] ELSE 0
Reads(c) == IF c \in DOMAIN reads THEN reads[c] ELSE 0

IsAct == EvC(Ev) = CNext /\ EvO(Ev) = ONext
A == EvAct(Ev)
DiskWrite == IsAct /\ ((A.k = KF /\ A.s = DISK) \/ (A.k \in {KC, KM} /\ A.t = DISK))
DiskLoad == IsAct /\ A.k \in {KC, KM} /\ A.s = DISK /\ A.t = WORK

C19Clauses ==
       (IF IsAct /\ A.k = KEF /\ phase = "fwd"
          THEN C("C19.write_positions", dw = Expected) ELSE {})
  \cup (IF DiskWrite /\ phase # "fwd" THEN {"C19.no_late_write"} ELSE {})
  \cup (IF DiskLoad THEN C("C19.read_once", Reads(A.a) = 0) ELSE {})
  \cup (IF IsAct /\ A.k = KER /\ phase = "rev"
          THEN      C("C19.read_once", \A c \in dw : Reads(c) = 1)
               \cup C("C19.segment_opt",
                      \A k \in 0..Q :
                         Seg(k) = GW(SegLen(k), Min(CMem, SegLen(k) - 1))
                                  + (IF k < Q THEN SegLen(k) ELSE 0))
          ELSE {})

HistEffect ==
  /\ dw' = (IF DiskWrite /\ phase = "fwd" /\ A.k = KF THEN dw \cup {A.a} ELSE dw)
  /\ reads' = (IF DiskLoad THEN (A.a :> (Reads(A.a) + 1)) @@ reads ELSE reads)
  /\ seg' = (IF IsAct /\ A.k = KF
               THEN [k \in 0..Q |-> Seg(k) + StepsInSeg(k, A.a, Min(A.b, NSteps))]
               ELSE seg)

XInit == /\ TraceInit /\ dw = {} /\ reads = <<>> /\ seg = <<>>
         /\ M = Period(CMem, T.p.uf, T.p.wd, T.p.rd)
         /\ Q = Cardinality(ExpectedFor(M))
XNext == Step(C19Clauses) /\ HistEffect /\ UNCHANGED <<M, Q>>
XSpec == XInit /\ [][XNext]_xvars

VerdictP ==
  (l = TLen + 1) => PrintT(<<"@V", tid, viol, cnt, pass, phase, M, "V@">>)
=============================================================================
