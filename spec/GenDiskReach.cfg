SPECIFICATION Spec
CONSTANTS
  NMax = 9
  CM = 1
  UF = 1
  WD = 2
  RD = 2
  PER = 0
INVARIANT ReachDisk
CHECK_DEADLOCK FALSE
