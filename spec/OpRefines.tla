------------------------------ MODULE OpRefines ------------------------------
(***************************************************************************)
(* The conversion of operation sequences into action streams               *)
(* (RevolveCheckpointSchedule._iterator) is a REFINEMENT MAPPING:          *)
(*                                                                           *)
(*   every operation program that OpMachine accepts (including its named    *)
(*   conversion preconditions: a Write / Write_Forward is immediately        *)
(*   followed by the Forward that carries it out, a checkpoint is read only  *)
(*   while it covers the adjoint position) is mapped to a stream of which    *)
(*   no Executor clause is false - C01, C02, C03, C04, C12 follow for the   *)
(*   stream from the operation-level clauses, for EVERY such program of     *)
(*   l <= N-1 steps, not only for the ones the library generates.           *)
(*                                                                           *)
(* Both machines run in lock step: OpMachine takes any accepted operation   *)
(* (Read with the prophecy `last`), the Executor takes its image with TOTAL *)
(* effects and the false clauses are collected in `bad`.                     *)
(***************************************************************************)
EXTENDS Executor

CONSTANTS N, LimR, LimD,
          MoveOnLast        \* TRUE: the conversion's rule; FALSE: negative control (always Copy)

OM == INSTANCE OpMachine

VARIABLES os, prev, pendEF, bad,
          prog            \* history: the operations taken, <<type, a, b, lev, last>> (hidden by the VIEW)
ovars == <<os, prev, pendEF, bad, prog>>
rvars == <<evars, ovars>>

P == [l |-> N - 1, K |-> 2, cap |-> <<LimR, LimD>>, w |-> <<0, 1>>, r |-> <<0, 1>>, uf |-> 1, ub |-> 1,
      pre |-> <<>>, keep |-> <<>>, mk |-> -1, claim |-> <<<<-1>>, <<-1>>>>, memwf |-> FALSE]

Profile == [online |-> FALSE, passes |-> 1, allmem |-> FALSE, limR |-> LimR, limD |-> LimD,
            period |-> 0, perstep |-> FALSE]

Ops ==
       {<<OM!OF, a, b, 0>> : a \in 0..(N - 1), b \in 1..N}
  \cup {<<OM!OB, a, a - 1, 0>> : a \in 1..N}
  \cup {<<t, a, 0, lev>> : t \in {OM!OW, OM!OR, OM!OD}, a \in 0..(N - 1), lev \in 0..1}
  \cup {<<t, a, 0, 0>> : t \in {OM!OWF, OM!ODF}, a \in 1..N}

(* the image of one operation (cf. Conv in TraceOps): at most one action; EndForward follows *)
(* as a step of its own when the forward reaches N                                            *)
HasImage(o) == o[1] \in {OM!OF, OM!OB, OM!OR}
Image(o, last) ==
  CASE o[1] = OM!OF ->
         IF prev[1] = OM!OW /\ prev[2] = o[2] THEN Fwd(o[2], o[3], TRUE, FALSE, prev[4])
         ELSE IF prev[1] = OM!OWF /\ prev[2] = o[3] THEN Fwd(o[2], o[3], FALSE, TRUE, WORK)
         ELSE Fwd(o[2], o[3], FALSE, FALSE, WORK)
    [] o[1] = OM!OB -> Rev(o[2], o[3], TRUE)
    [] o[1] = OM!OR -> IF last /\ MoveOnLast THEN Mov(o[2], o[4], WORK) ELSE Cpy(o[2], o[4], WORK)

Init ==
  /\ ExecInit(Profile, N)
  /\ os = OM!OpInit(P) /\ prev = <<OM!OX, 0, 0, 0>> /\ pendEF = FALSE /\ bad = {} /\ prog = <<>>

StepOp(o, last) ==
  /\ ~pendEF
  /\ OM!OpClauses(P, os, o, last) = {}
  /\ os' = OM!OpEffect(P, os, o, last)
  /\ prev' = o
  /\ prog' = Append(prog, <<o[1], o[2], o[3], o[4], IF last THEN 1 ELSE 0>>)
  /\ IF HasImage(o)
       THEN LET e == Image(o, last) IN
            /\ ActEffect(e)
            /\ bad' = bad \cup ActClauses(e) \cup StateClausesNext
            /\ pendEF' = (e.k = KF /\ e.b = N)
       ELSE UNCHANGED <<evars, bad, pendEF>>

StepEF ==
  /\ pendEF
  /\ ActEffect(EndF) /\ bad' = bad \cup ActClauses(EndF) \cup StateClausesNext
  /\ pendEF' = FALSE /\ UNCHANGED <<os, prev, prog>>

(* the program is complete: the stream is closed by EndReverse *)
StepEnd ==
  /\ ~pendEF /\ os.adj = 0 /\ phase # "done"
  /\ OM!EndClauses(P, os) = {}
  /\ ActEffect(EndR) /\ bad' = bad \cup ActClauses(EndR) \cup StateClausesNext
  /\ UNCHANGED <<os, prev, pendEF, prog>>

Next ==
  \/ \E o \in Ops : \E last \in BOOLEAN : (o[1] = OM!OR \/ ~last) /\ StepOp(o, last)
  \/ StepEF
  \/ StepEnd

Spec == Init /\ [][Next]_rvars

View == <<maxN, fwd, adj, wIcs, wDeps, lost, ram, disk, phase, atEF, os.buf, os.st, os.ext, os.pw, os.fresh, os.wrote, os.armed, os.tape, os.adj,
          prev[1], prev[2], prev[4], pendEF, bad>>

(* ---- the refinement ---- *)
Refines == bad = {}
(* the state projection: both machines agree on where they are and what is stored *)
Projection ==
  /\ os.adj = N - adj
  /\ (phase # "done") =>
       (\A k \in 1..2 : os.st[k] \ (IF prev[1] = OM!OW /\ prev[4] = k - 1 THEN {prev[2]} ELSE {})
                         = DOMAIN (IF k = 1 THEN ram ELSE disk))       \* a Write is carried out by the next Forward
  /\ (os.buf # OM!NoBuf /\ ~pendEF /\ prev[1] # OM!OR) => fwd = os.buf
(* ---- spec -> code: complete accepted programs, printed for replay into the REAL converter ---- *)
ViewProg == <<View, prog>>
CONSTANT TB
CostBound == os.t <= TB /\ prev[1] # OM!OD       \* CONSTRAINT of the program generator
Emit == (phase = "done") => PrintT(<<"@V", N, LimR, LimD, prog, "V@">>)
(* ---- reachability (EXPECTED to be violated): a complete program exists ---- *)
ReachDone == phase # "done"
ReachDiskRead == ~(\E n \in DOMAIN disk : TRUE) \/ os.adj > 1
=============================================================================
