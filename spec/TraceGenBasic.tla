----------------------------- MODULE TraceGenBasic -----------------------------
(***************************************************************************)
(* code -> model: a recorded trace of SingleMemory / SingleDisk (copy, move) *)
(* / None - any Client history of next() and finalize(k) - must be THE       *)
(* behaviour of the deterministic generator model GenBasic: the same action  *)
(* (or StopIteration) at every next(), the same outcome at every finalize,   *)
(* the same n, r, max_n, is_exhausted, is_running after every call.  A       *)
(* mismatch is GEN.drift - a DIAGNOSTIC, never by itself a violation of a    *)
(* listed property; the rest of the trace is not compared.                   *)
(***************************************************************************)
EXTENDS TraceExec, GenBasic

VARIABLES gs, ok
xvars == <<vars, gs, ok>>

Cls == T.cls
IsNext == EvC(Ev) = CNext
IsFin == EvC(Ev) = CFin
StepOut == GenStep(Cls, gs)
FinOut == GenFinalize(gs, Ev[4])
After == IF IsNext THEN StepOut.gs ELSE IF IsFin THEN FinOut.gs ELSE gs

SameObs(o, m) == o.n = m.n /\ o.r = m.r /\ o.m = m.m /\ o.x = m.x /\ o.g = m.g

CallOK ==
  IF IsNext THEN (IF StepOut.o = 0 THEN EvO(Ev) = ONext /\ EvAct(Ev) = StepOut.e ELSE EvO(Ev) = OStop)
  ELSE IF IsFin THEN EvO(Ev) = FinOut.o
  ELSE TRUE

GenClauses ==
  IF ~ok THEN {}
  ELSE C("GEN.drift", CallOK /\ SameObs(EvObs(Ev), GenObs(Cls, After)))

GenEffect ==
  IF ~ok THEN UNCHANGED <<gs, ok>>
  ELSE /\ ok' = (CallOK /\ SameObs(EvObs(Ev), GenObs(Cls, After)))
       /\ gs' = After

XInit == TraceInit /\ gs = GenInit /\ ok = TRUE
XNext == Step(GenClauses) /\ GenEffect
XSpec == XInit /\ [][XNext]_xvars
=============================================================================
