SPECIFICATION Spec
CONSTANTS
  Cls = "SingleMemory"
  K = 3
  Depth = 12
CONSTRAINT Consistent
INVARIANT NothingFails
CHECK_DEADLOCK FALSE
