SPECIFICATION Spec
CONSTANTS
  P = 3
  B = 0
  BinSt = 0
  K = 9
  MaxFwd = 3
  MaxPass = 2
CONSTRAINT Bound
INVARIANT NothingFails
INVARIANT NoStuck
CHECK_DEADLOCK FALSE
