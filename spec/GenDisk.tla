-------------------------------- MODULE GenDisk --------------------------------
(***************************************************************************)
(* Design level (no code): GenDiskCore composed with Executor/SchedAPI.     *)
(* For every N <= NMax and EVERY resolution of the choices TLC checks that   *)
(* no clause of C01-C04, C08, C09, C12 fails (RAM budget CM, disk            *)
(* unbounded), that nothing gets stuck, and - Disk-Revolve - that the total  *)
(* cost uf*steps + wd*disk writes + rd*disk reads is the value of the        *)
(* Disk-Revolve recurrence (C07); Periodic: the same clauses with the        *)
(* period fixed (PER > 0), each disk checkpoint read exactly once (C19).     *)
(***************************************************************************)
EXTENDS SchedAPI, GenDiskCore

CONSTANTS NMax, CM, UF, WD, RD, PER

VARIABLES N, gd, bad
dvars == <<evars, avars, N, gd, bad>>

Cfg == [N |-> N, cm |-> CM, uf |-> UF, wd |-> WD, rd |-> RD, per |-> PER,
        ex |-> ExTab(NMax), dk |-> DiskTab(NMax, CM, UF, WD, RD)]
Succ == DSucc(gd, Cfg)

Obs(g) == [n |-> DPosN(g), r |-> DPosR(g, N), m |-> N, x |-> IF g.exh THEN 1 ELSE 0, g |-> 1, u |-> <<1, 1, 0, 0>>]
Profile == [online |-> FALSE, passes |-> 1, allmem |-> FALSE, limR |-> CM, limD |-> -1, period |-> 0, perstep |-> FALSE]

Init == /\ N \in 1..NMax
        /\ ExecInit(Profile, N) /\ APIInit
        /\ gd = DInit /\ bad = {}

Next ==
  \E st \in Succ :
    /\ gd' = st.gs
    /\ NextEffect(ONext, st.e)
    /\ ObsEffect(Obs(st.gs))
    /\ bad' = bad \cup NextClauses(ONext, st.e) \cup ObsClausesNext(Obs(st.gs)) \cup StateClausesNext
    /\ UNCHANGED N

Spec == Init /\ [][Next]_dvars
FairSpec == Spec /\ WF_dvars(Next)
Terminates == <>(gd.pc = "stop")

NothingFails == bad = {}
NoStuck == (gd.pc # "stop") => Succ # {}
OptimalCost == (gd.pc = "stop" /\ PER = 0) => UF * cnt.nF + WD * cnt.nDW + RD * cnt.nDR = Cfg.dk[N]
ReadOnce == gd.pc = "stop" => cnt.nDR = cnt.nDW
ReachStop == gd.pc # "stop"
ReachDisk == cnt.nDR = 0
=============================================================================
