--------------------------- MODULE TraceGenBinomial ---------------------------
(***************************************************************************)
(* code -> model: a recorded Multistage (or memory-only Revolve) trace must *)
(* be a behaviour of the binomial generator model (GenBinomialCore), storage*)
(* labels aside: at every next() the emitted action has to be one of the   *)
(* actions the model allows in its current state (the step size any        *)
(* Bellman-optimal one).  A mismatch is recorded as GEN.drift - a          *)
(* DIAGNOSTIC (the implementation follows another algorithm than the       *)
(* model), never by itself a violation of a listed property; the model     *)
(* state is then lost and the rest of the trace is not compared.           *)
(***************************************************************************)
EXTENDS TraceExec, GenBinomialCore

VARIABLES g, ok,
          ex        \* the table of binomial optima for this trace's n (constant along the trace)
xvars == <<vars, g, ok, ex>>

NS == T.p.max_n
SU == Min(Min(Max(T.p.ram, 0), NS - 1) + Min(Max(T.p.disk, 0), NS - 1), NS - 1)
Erase(st) == IF st \in Stores THEN RAM ELSE st
Un(e) == [e EXCEPT !.s = Erase(e.s), !.t = Erase(e.t)]

IsNext == EvC(Ev) = CNext
Matches == {st \in SuccOf(g, NS, SU, RAM, ex) : EvO(Ev) = ONext /\ st.e = Un(EvAct(Ev))}

GenClauses ==
  IF ~ok \/ ~IsNext THEN {}
  ELSE IF g.pc = "stop" THEN C("GEN.drift", EvO(Ev) = OStop)
  ELSE C("GEN.drift", Matches # {})

GenEffect ==
  IF ~ok \/ ~IsNext \/ g.pc = "stop" THEN UNCHANGED <<g, ok>>
  ELSE IF Matches = {} THEN ok' = FALSE /\ g' = g
  ELSE g' = (CHOOSE st \in Matches : TRUE).gs /\ ok' = TRUE

XInit == TraceInit /\ g = GenBinInit /\ ok = TRUE /\ ex = ExTab(Max(NS, 1))
XNext == Step(GenClauses) /\ GenEffect /\ UNCHANGED ex
XSpec == XInit /\ [][XNext]_xvars
=============================================================================
