------------------------------ MODULE HierTables ------------------------------
(***************************************************************************)
(* C07 beyond the exhaustively searched box: the published recurrences of  *)
(* the Revolve family, written in the cost convention of the property      *)
(* (uf per forward step, wd per checkpoint written to DISK, rd per load    *)
(* from DISK; the constant ub*n left out), independently of the code, and  *)
(* built bottom-up, one row (step count n) per state:                      *)
(*   Rev(n)      = uf * GW(n, cm)                     memory only           *)
(*   Dsk(n)      Disk-Revolve, Aupy et al. (2016): unbounded disk, every   *)
(*               disk checkpoint read once:                                *)
(*               min( Rev(n), min_j wd + j*uf + Dsk(n-j) + rd + Rev(j) )   *)
(*   H(n, c)     H-Revolve, Herrmann & Pallez (2020), two levels, c disk   *)
(*               slots:  min( Rev(n), wd + Hp(n, c) ),  H(n, 0) = Rev(n)   *)
(*   Hp(n, c)    the same with step 0 already on disk and in the buffer:   *)
(*               min( Rev(n), min_j j*uf + H(n-j, c-1) + rd + Hp(j, c) )   *)
(* A configuration fixes (cm, uf, wd, rd) and the largest c.               *)
(*                                                                         *)
(* Claims: costs of validated implementation traces, and the optima found  *)
(* by the exhaustive ExecOpt search (kind "opt*": these validate THIS      *)
(* transcription on every run).  Verdict: the claims that differ.          *)
(***************************************************************************)
EXTENDS GWForm, Sequences, FiniteSets, TLC, Json, IOUtils

Data == JsonDeserialize(IOEnv.CLAIMS_FILE)
Cfgs == Data.cfgs              \* sequence of [cm, uf, wd, rd, cmax]
Claims == Data.claims          \* sequence of [kind ("rev"|"dsk"|"hrev"), cfg, n, c, v]
NMax == atoi(IOEnv.OPT_NMAX)

VARIABLES dsk, hh, hp          \* dsk[cfg][n];  hh[cfg][n][c];  hp[cfg][n][c]
vars == <<dsk, hh, hp>>

SetMin(S) == CHOOSE m \in S : \A x \in S : m <= x
Rev(k, n) == Cfgs[k].uf * GW(n, GMin(Cfgs[k].cm, n - 1))

DskEntry(k, n) ==
  IF n = 1 THEN Rev(k, 1)
  ELSE SetMin({Rev(k, n)} \cup
              {Cfgs[k].wd + j * Cfgs[k].uf + dsk[k][n - j] + Cfgs[k].rd + Rev(k, j) : j \in 1..(n - 1)})

(* row n of Hp and H for configuration k, given all earlier rows; c runs over 0..cmax *)
HpRow(k, n) ==
  [c \in 0..Cfgs[k].cmax |->
     IF c = 0 \/ n = 1 THEN Rev(k, n)
     ELSE SetMin({Rev(k, n)} \cup
                 {j * Cfgs[k].uf + hh[k][n - j][c - 1] + Cfgs[k].rd + hp[k][j][c] : j \in 1..(n - 1)})]
HRow(k, n, hprow) ==
  [c \in 0..Cfgs[k].cmax |->
     IF c = 0 THEN Rev(k, n) ELSE GMin(Rev(k, n), Cfgs[k].wd + hprow[c])]

Init == /\ dsk = [k \in 1..Len(Cfgs) |-> <<>>]
        /\ hh = [k \in 1..Len(Cfgs) |-> <<>>]
        /\ hp = [k \in 1..Len(Cfgs) |-> <<>>]
Next == LET n == Len(dsk[1]) + 1 IN
        /\ n <= NMax
        /\ dsk' = [k \in 1..Len(Cfgs) |-> Append(dsk[k], DskEntry(k, n))]
        /\ hp' = [k \in 1..Len(Cfgs) |-> Append(hp[k], HpRow(k, n))]
        /\ hh' = [k \in 1..Len(Cfgs) |-> Append(hh[k], HRow(k, n, HpRow(k, n)))]
Spec == Init /\ [][Next]_vars

(* more disk never hurts; a disk never hurts; Disk-Revolve with one read is no better than H-Revolve
   with as many multi-read slots as steps *)
Monotone ==
  \A k \in 1..Len(Cfgs) : \A n \in 1..Len(dsk[k]) :
     /\ dsk[k][n] <= Rev(k, n)
     /\ \A c \in 1..Cfgs[k].cmax : hh[k][n][c] <= hh[k][n][c - 1]

Value(cl) ==
  CASE cl.kind \in {"rev", "optrev"} -> Rev(cl.cfg, cl.n)
    [] cl.kind \in {"dsk", "optdsk"} -> dsk[cl.cfg][cl.n]
    [] cl.kind \in {"hrev", "opthrev"} -> hh[cl.cfg][cl.n][GMin(cl.c, Cfgs[cl.cfg].cmax)]

BadClaims == {x \in 1..Len(Claims) : Claims[x].n <= NMax /\ Value(Claims[x]) # Claims[x].v}
Verdict == Len(dsk[1]) = NMax => PrintT(<<"@V", BadClaims, "V@">>)
=============================================================================
