SPECIFICATION Spec
CONSTANTS
  P = 4
  B = 2
  BinSt = 0
  K = 9
  MaxFwd = 3
  MaxPass = 2
CONSTRAINT Bound
INVARIANT ReachSecondPass
CHECK_DEADLOCK FALSE
