SPECIFICATION Spec
CONSTANTS
  N = 3
  LimR = 1
  LimD = 1
  Passes = 1
  AllMem = FALSE
VIEW View
INVARIANT ReachDone
CHECK_DEADLOCK FALSE
