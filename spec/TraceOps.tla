------------------------------ MODULE TraceOps ------------------------------
(***************************************************************************)
(* code -> spec, one layer down: the operation sequences returned by the   *)
(* public functions revolve, revolve_1d, disk_revolve,                      *)
(* periodic_disk_revolve and hrevolve are replayed on OpMachine; when the   *)
(* trace also carries the action stream that a Revolve-family class made    *)
(* from the same sequence (`acts`), the stream must be the image of the     *)
(* operations under the conversion Conv below (a refinement mapping from    *)
(* the operation layer to the action layer).                                *)
(*                                                                           *)
(* T.ev = operations <<type, a, b, lev>> followed by one END marker (98).   *)
(***************************************************************************)
EXTENDS OpMachine, Json, IOUtils, TLCExt, TLC

Traces == JsonDeserialize(IOEnv.TRACE_FILE)

VARIABLES tid, l, viol, s, j
vars == <<tid, l, viol, s, j>>

T == Traces[tid]
TLen == Len(T.ev)
P == T.p
OEND == 98

KF == 0  KR == 1  KC == 2  KM == 3  KEF == 4  KER == 5
WORK == 2   NONE == 3

HasActs == T.hasacts = 1
Acts == T.acts
MaxN == P.l + 1

(* ---- the conversion: what RevolveCheckpointSchedule must emit for operation number i ---- *)
LastRead(i) ==
  ~ \E m \in (i + 1)..TLen : OTy(T.ev[m]) = OR /\ OLev(T.ev[m]) = OLev(T.ev[i]) /\ OA(T.ev[m]) = OA(T.ev[i])

Prev(i) == IF i > 1 THEN T.ev[i - 1] ELSE <<OX, 0, 0, 0>>

FwdImage(i) ==
  LET o == T.ev[i]  q == Prev(i) IN
  IF OTy(q) = OW /\ OA(q) = OA(o) THEN <<KF, OA(o), OBb(o), 1, 0, OLev(q), NONE>>
  ELSE IF OTy(q) = OWF /\ OA(q) = OBb(o) THEN <<KF, OA(o), OBb(o), 0, 1, WORK, NONE>>
  ELSE <<KF, OA(o), OBb(o), 0, 0, WORK, NONE>>

Conv(i, st) ==
  LET o == T.ev[i] IN
  CASE OTy(o) = OF -> <<FwdImage(i)>> \o (IF OBb(o) = MaxN THEN <<<<KEF, 0, 0, 0, 0, NONE, NONE>>>> ELSE <<>>)
    [] OTy(o) = OB -> <<<<KR, OA(o), OBb(o), 1, 0, NONE, NONE>>>>
    [] OTy(o) = OR -> <<<<IF OA(o) = st.adj - 1 \/ LastRead(i) THEN KM ELSE KC, OA(o), 0, 0, 0, OLev(o), WORK>>>>
    [] OTy(o) = OEND -> <<<<KER, 0, 0, 0, 0, NONE, NONE>>>>
    [] OTHER -> <<>>

ConvName(o) ==
  CASE OTy(o) = OF -> "CONV.forward"
    [] OTy(o) = OB -> "CONV.reverse"
    [] OTy(o) = OR -> "CONV.load"
    [] OTHER -> "CONV.end"

ConvClauses(i, st) ==
  LET want == Conv(i, st)  n == Len(want) IN
  IF ~HasActs THEN {}
  ELSE Cl(ConvName(T.ev[i]), j + n - 1 <= Len(Acts) /\ SubSeq(Acts, j, j + n - 1) = want)
       \cup (IF OTy(T.ev[i]) = OEND THEN Cl("CONV.all_consumed", j + n - 1 = Len(Acts)) ELSE {})

TraceInit ==
  /\ tid \in 1..Len(Traces)
  /\ l = 1 /\ viol = {} /\ j = 1
  /\ s = OpInit(P)

Ev == T.ev[l]
Seen == {v[1] : v \in viol}

TraceNext ==
  /\ l <= TLen
  /\ LET cl == (IF OTy(Ev) = OEND THEN EndClauses(P, s) ELSE OpClauses(P, s, Ev, LastRead(l))) \cup ConvClauses(l, s) IN
       viol' = viol \cup {<<c, l, FALSE>> : c \in cl \ Seen}
  /\ s' = IF OTy(Ev) = OEND THEN s ELSE OpEffect(P, s, Ev, LastRead(l))
  /\ j' = IF HasActs THEN j + Len(Conv(l, s)) ELSE j
  /\ l' = l + 1 /\ tid' = tid

TraceSpec == TraceInit /\ [][TraceNext]_vars

Verdict ==
  (l = TLen + 1) => PrintT(<<"@V", tid, viol, s.t, j, s.adj, "V@">>)
=============================================================================
