SPECIFICATION Spec
CONSTANTS
  P = 2
  B = 1
  BinSt = 0
  K = 9
  MaxFwd = 3
  MaxPass = 2
CONSTRAINT Bound
INVARIANT NothingFails
INVARIANT NoStuck
CHECK_DEADLOCK FALSE
