SPECIFICATION Spec
CONSTANTS
  NMax = 9
  CM = 1
  UF = 3
  WD = 1
  RD = 1
  PER = 0
INVARIANT NothingFails
INVARIANT NoStuck
INVARIANT OptimalCost
INVARIANT ReadOnce
CHECK_DEADLOCK FALSE
