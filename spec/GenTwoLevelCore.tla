---------------------------- MODULE GenTwoLevelCore ----------------------------
(***************************************************************************)
(* The TwoLevel generator as a pure successor relation (used by            *)
(* GenTwoLevel: free, design level; and by TraceGenTwoLevel: implementation *)
(* traces must be behaviours of it).                                        *)
(*   g = [pc, n, r, m, stack, n0s]                                          *)
(*   TLSucc(g, P, B, BinSt, Ch): the actions the algorithm may emit next,   *)
(*   Ch(len, u) the admissible advances for len steps and u units;          *)
(*   TLFin(g, k): finalize(k) as the base class does it.                    *)
(***************************************************************************)
EXTENDS SchedAPI, GenBinomialCore

TLInit == [pc |-> "F", n |-> 0, r |-> 0, m |-> Unknown, stack |-> <<>>, n0s |-> 0]
TStep(e, gg) == [e |-> e, gs |-> gg]

(* the reverse loop inside one block; gg.stack is never empty while the block is unfinished *)
TLLoop(gg, BinSt) ==
  LET top == gg.stack[Len(gg.stack)]
      pop == SubSeq(gg.stack, 1, Len(gg.stack) - 1) IN
  IF top = gg.m - gg.r - 1
    THEN {TStep(IF top = gg.n0s THEN Cpy(top, DISK, WORK) ELSE Mov(top, BinSt, WORK),
                [gg EXCEPT !.n = top, !.stack = pop, !.pc = "deps"])}
    ELSE {TStep(IF top = gg.n0s THEN Cpy(top, DISK, WORK) ELSE Cpy(top, BinSt, WORK),
                [gg EXCEPT !.n = top, !.pc = "adv1"])}

(* top of the reverse phase: next block, or the end of this adjoint calculation *)
TLBlock(gg, P, BinSt) ==
  IF gg.r = gg.m THEN {TStep(EndR, [gg EXCEPT !.r = 0, !.pc = "blk"])}
  ELSE LET nn == gg.m - gg.r - 1
           b0 == (nn \div P) * P IN
       TLLoop([gg EXCEPT !.stack = <<b0>>, !.n0s = b0], BinSt)

TLSucc(g, P, B, BinSt, Ch(_, _)) ==
  LET free == B + 1 - Len(g.stack)
      left == g.m - g.r - g.n IN
  CASE g.pc = "F" ->
         IF g.m = Unknown
           THEN {TStep(Fwd(g.n, g.n + P, TRUE, FALSE, DISK), [g EXCEPT !.n = g.n + P])}
           ELSE {TStep(EndF, [g EXCEPT !.pc = "blk"])}
    [] g.pc = "blk" -> TLBlock(g, P, BinSt)
    [] g.pc = "loop" -> IF g.r = g.m - g.n0s THEN TLBlock(g, P, BinSt) ELSE TLLoop(g, BinSt)
    [] g.pc = "adv1" ->
         {TStep(Fwd(g.n, g.n + mm, FALSE, FALSE, WORK),
                [g EXCEPT !.n = g.n + mm, !.pc = IF g.n + mm < g.m - g.r - 1 THEN "advk" ELSE "deps"])
            : mm \in Ch(left, free + 1)}
    [] g.pc = "advk" ->
         {TStep(Fwd(g.n, g.n + mm, TRUE, FALSE, BinSt),
                [g EXCEPT !.n = g.n + mm, !.stack = Append(g.stack, g.n),
                          !.pc = IF g.n + mm < g.m - g.r - 1 THEN "advk" ELSE "deps"])
            : mm \in Ch(left, free)}
    [] g.pc = "deps" -> {TStep(Fwd(g.n, g.n + 1, FALSE, TRUE, WORK), [g EXCEPT !.n = g.n + 1, !.pc = "rev"])}
    [] g.pc = "rev" -> {TStep(Rev(g.n, g.n - 1, TRUE), [g EXCEPT !.r = g.r + 1, !.pc = "loop"])}
    [] OTHER -> {}

(* the key under which a step choice is remembered (a schedule must repeat its choices, C09) *)
TLKey(g, B) == <<g.m - g.r - g.n, B + 1 - Len(g.stack) + (IF g.pc = "adv1" THEN 1 ELSE 0)>>

(* finalize(k) as the base class does it *)
TLFin(g, k) ==
  IF k < 1 THEN [o |-> FValue, gs |-> g]
  ELSE IF g.m = Unknown
         THEN (IF g.n >= k THEN [o |-> FOk, gs |-> [g EXCEPT !.n = k, !.m = k]] ELSE [o |-> FRuntime, gs |-> g])
  ELSE IF g.n # k \/ g.m # k THEN [o |-> FRuntime, gs |-> g] ELSE [o |-> FOk, gs |-> g]
=============================================================================
