SPECIFICATION Spec
CONSTRAINT Prune
INVARIANT Cheaper
CHECK_DEADLOCK FALSE
