--------------------------- MODULE ActionUniverse ---------------------------
(***************************************************************************)
(* A small universe of directly constructed actions (all kinds, step       *)
(* numbers 0..3 and sys.maxsize, all flags, all storages) for the value    *)
(* object laws of C18: equality, repr round trip, len/iteration/membership.*)
(***************************************************************************)
EXTENDS CkptActions

MaxSize == Big + BigQ       \* the embedding of sys.maxsize

UF == {Fwd(n0, n1, wi, wd, st) : n0 \in 0..2, n1 \in (1..3) \cup {MaxSize},
                                  wi \in BOOLEAN, wd \in BOOLEAN, st \in Storages}
UR == {Rev(n1, n0, c) : n1 \in 1..3, n0 \in 0..2, c \in BOOLEAN}
UL == {Cpy(n, f, t) : n \in 0..2, f \in Stores, t \in Storages}
        \cup {Mov(n, f, t) : n \in 0..2, f \in Stores, t \in Storages}
Universe == {e \in UF : e.a < e.b} \cup {e \in UR : e.a > e.b} \cup UL \cup {EndF, EndR}
=============================================================================
