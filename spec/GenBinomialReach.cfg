SPECIFICATION Spec
CONSTANTS
  NMax = 7
  St = 0
INVARIANT ReachStop
CHECK_DEADLOCK FALSE
