SPECIFICATION Spec
CONSTANTS
  NMax = 9
  St = 0
INVARIANT ReachStop
CHECK_DEADLOCK FALSE
