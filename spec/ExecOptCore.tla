----------------------------- MODULE ExecOptCore -----------------------------
(***************************************************************************)
(* EVERY executable schedule, with its cost.                               *)
(*                                                                         *)
(* The executor (Executor.tla) reduced to what matters for cost, so that   *)
(* TLC can explore all behaviours of a client that completes one adjoint   *)
(* calculation over n steps:                                               *)
(*   pos   step at which the forward state in WORK stands, or -1           *)
(*   a     adjoint position: steps a..n-1 have been reversed               *)
(*   ram, disk   steps with a restart checkpoint in RAM / on DISK          *)
(*   dep   steps whose adjoint dependencies are stored in a unit (Mixed)   *)
(*   cost  uf per forward step, wd per DISK write, rd per DISK load        *)
(*         (ub * n is the same constant for every schedule, added outside) *)
(* Actions mirror Executor one-to-one:                                     *)
(*   Advance   Forward(pos, pos+k, write_ics?, False, st) - optionally     *)
(*             storing a restart checkpoint of pos first (evicting one     *)
(*             checkpoint if the level is full: a delete is free)          *)
(*   StoreDeps Forward(pos, pos+1, False, True, unit)  (AllowDeps: Mixed)  *)
(*   StepRev   Forward(a-1, a, False, True, WORK); Reverse(a, a-1, True)   *)
(*   RevStored Move(a-1, unit, WORK); Reverse(a, a-1, True)                *)
(*   Load      Copy/Move(c, RAM|DISK, WORK)                                *)
(*   Discard   Move(c, RAM|DISK, NONE)  (free)                             *)
(*   Overshoot Forward(pos, a, ...) without producing dependencies: the    *)
(*             forward state ends where it is of no further use            *)
(* Checkpoints at or beyond the adjoint position are useless and dropped.  *)
(* There is no direct RAM<->DISK transfer (the operation model of Revolve, *)
(* Disk-Revolve and H-Revolve has none, and no class emits one).           *)
(*                                                                         *)
(* An INSTANCE fixes n, the unit budgets, the cost vector, and the CLAIM:   *)
(* the cost the implementation achieved (from validated traces).  TLC       *)
(* explores every behaviour whose cost can still end below the claim; any   *)
(* completed behaviour cheaper than the claim is printed as a verdict.      *)
(***************************************************************************)
EXTENDS Integers, FiniteSets, Sequences, TLC

VARIABLES par,     \* the instance, constant along a behaviour:
                   \* [idx, n, cm, cd (-1 = unbounded), uf, wd, rd, deps (0/1), oneread (0/1), claim]
          pos, a, ram, disk, dep, cost
vars == <<par, pos, a, ram, disk, dep, cost>>

I == par
CM == I.cm   CD == I.cd   UF == I.uf   WD == I.wd   RD == I.rd
AllowDeps == I.deps = 1
OneRead == I.oneread = 1
Units == Cardinality(ram) + Cardinality(dep)      \* Mixed: one pool of units

InitFor(inst) == /\ par = inst
                 /\ pos = 0 /\ a = inst.n /\ ram = {} /\ disk = {} /\ dep = {} /\ cost = 0

(* Store a restart checkpoint of the current position in RAM: into a free unit, *)
(* or in place of any one stored item.                                          *)
StoreRam ==
  /\ CM > 0 /\ pos \notin ram /\ pos \notin dep
  /\ \/ Units < CM /\ ram' = ram \cup {pos} /\ dep' = dep
     \/ Units >= CM /\ \E c \in ram : ram' = (ram \ {c}) \cup {pos} /\ dep' = dep
     \/ Units >= CM /\ \E c \in dep : dep' = dep \ {c} /\ ram' = ram \cup {pos}

StoreDisk ==
  /\ CD # 0 /\ pos \notin disk
  /\ \/ (CD < 0 \/ Cardinality(disk) < CD) /\ disk' = disk \cup {pos}
     \/ (CD > 0 /\ Cardinality(disk) >= CD) /\ \E c \in disk : disk' = (disk \ {c}) \cup {pos}

Advance ==
  /\ pos >= 0
  /\ \E k \in 1..(a - 1 - pos) :
       /\ pos' = pos + k
       /\ \/ UNCHANGED <<ram, disk, dep>> /\ cost' = cost + k * UF
          \/ StoreRam /\ disk' = disk /\ cost' = cost + k * UF
          \/ StoreDisk /\ UNCHANGED <<ram, dep>> /\ cost' = cost + k * UF + WD
  /\ UNCHANGED <<par, a>>

(* Advance right up to the adjoint position without producing the dependencies of   *)
(* the last step (legal, wasteful): the forward state is then useless.               *)
Overshoot ==
  /\ pos >= 0 /\ pos < a
  /\ pos' = -1
  /\ \/ UNCHANGED <<ram, disk, dep>> /\ cost' = cost + (a - pos) * UF
     \/ StoreRam /\ disk' = disk /\ cost' = cost + (a - pos) * UF
     \/ StoreDisk /\ UNCHANGED <<ram, dep>> /\ cost' = cost + (a - pos) * UF + WD
  /\ UNCHANGED <<par, a>>

(* Delete a stored item (free). *)
Discard ==
  /\ \/ \E c \in ram : ram' = ram \ {c} /\ UNCHANGED <<disk, dep>>
     \/ \E c \in disk : disk' = disk \ {c} /\ UNCHANGED <<ram, dep>>
     \/ \E c \in dep : dep' = dep \ {c} /\ UNCHANGED <<ram, disk>>
  /\ UNCHANGED <<par, pos, a, cost>>

(* Mixed: run step pos storing its adjoint dependencies in a unit. *)
StoreDeps ==
  /\ AllowDeps /\ pos >= 0 /\ pos < a /\ pos \notin dep /\ CM > 0
  /\ \/ Units < CM /\ dep' = dep \cup {pos} /\ ram' = ram
     \/ Units >= CM /\ \E c \in dep : dep' = (dep \ {c}) \cup {pos} /\ ram' = ram
     \/ Units >= CM /\ \E c \in ram : ram' = ram \ {c} /\ dep' = dep \cup {pos}
  /\ pos' = (IF pos + 1 >= a THEN -1 ELSE pos + 1)      \* at the adjoint position the state is useless
  /\ cost' = cost + UF
  /\ UNCHANGED <<par, a, disk>>

Drop(S, b) == {c \in S : c < b}

(* Run the last unreversed step with its dependencies into WORK and reverse it. *)
StepRev ==
  /\ pos = a - 1 /\ a > 0
  /\ a' = a - 1 /\ pos' = -1 /\ cost' = cost + UF
  /\ ram' = Drop(ram, a - 1) /\ disk' = Drop(disk, a - 1) /\ dep' = Drop(dep, a - 1)
  /\ UNCHANGED par

(* Load stored dependencies of the last unreversed step and reverse it. *)
RevStored ==
  /\ a > 0 /\ (a - 1) \in dep
  /\ a' = a - 1 /\ pos' = -1 /\ cost' = cost
  /\ ram' = Drop(ram, a - 1) /\ disk' = Drop(disk, a - 1) /\ dep' = Drop(dep, a - 1)
  /\ UNCHANGED par

LoadRam ==
  /\ \E c \in ram, mv \in BOOLEAN :
       /\ pos' = c /\ ram' = (IF mv THEN ram \ {c} ELSE ram)
  /\ UNCHANGED <<par, a, disk, dep, cost>>

LoadDisk ==
  /\ \E c \in disk, mv \in BOOLEAN :
       /\ OneRead => mv
       /\ pos' = c /\ disk' = (IF mv THEN disk \ {c} ELSE disk)
  /\ cost' = cost + RD
  /\ UNCHANGED <<par, a, ram, dep>>

Next == Advance \/ Overshoot \/ StoreDeps \/ StepRev \/ RevStored \/ LoadRam \/ LoadDisk \/ Discard

(* Admissible bound: every unreversed step without stored dependencies still *)
(* needs at least one forward step.                                          *)
Remaining == UF * (a - Cardinality(dep))
Prune == cost + Remaining < I.claim

(* Why pruning is sound: the potential cost + Remaining never decreases along any step, and equals *)
(* the cost when the adjoint is complete - so a state whose potential has reached the claim cannot *)
(* lead to a cheaper completed behaviour.  Checked by TLC as an action property (ExecOptAdm.cfg).  *)
Potential == cost + Remaining
PotentialMonotone == [][Potential' >= Potential]_vars
CostBound == cost <= I.claim
=============================================================================
