--------------------------- MODULE TraceMultistage ---------------------------
(***************************************************************************)
(* C14: the Multistage RAM/disk split changes only labels and minimises    *)
(* disk traffic.  Extends the generic trace validation with the checkpoint *)
(* STACK as history:                                                       *)
(*   stk     steps of the stored checkpoints, in the order they were pushed*)
(*   slotSt  stack position |-> the storage used at that position          *)
(*   slotW   stack position |-> number of accesses (writes + loads)        *)
(* and compares every event with the SIBLING trace: the all-DISK           *)
(* configuration with the same n, trajectory and total unit count          *)
(* (Traces[tid - T.sibo]).                                                 *)
(***************************************************************************)
EXTENDS TraceExec, FiniteSetsExt

VARIABLES stk, slotSt, slotW
xvars == <<vars, stk, slotSt, slotW>>

IsAct == EvC(Ev) = CNext /\ EvO(Ev) = ONext
A == EvAct(Ev)
Sib == Traces[tid - T.sibo]

Erase(st) == IF st \in Stores THEN RAM ELSE st
Unlabel(e) == <<e[1], e[2], e[3], e[4], e[5], e[6], e[7], Erase(e[8]), Erase(e[9])>>

IndexOf(n) == IF \E i \in 1..Len(stk) : stk[i] = n
                THEN CHOOSE i \in 1..Len(stk) : stk[i] = n ELSE 0

RECURSIVE SumOver(_, _)
SumOver(W, S) == IF S = {} THEN 0 ELSE LET i == CHOOSE x \in S : TRUE IN W[i] + SumOver(W, S \ {i})

RECURSIVE TopSum(_, _, _)
TopSum(W, P, k) ==
  IF k <= 0 \/ P = {} THEN 0
  ELSE LET m == CHOOSE i \in P : \A j \in P : W[i] >= W[j] IN W[m] + TopSum(W, P \ {m}, k - 1)

(* the statement, literally: the minimum over all ways of giving at most r stack positions to RAM *)
MinTrafficLiteral(W, r) ==
  LET P == DOMAIN W
      cands == {SumOver(W, P \ S) : S \in {X \in SUBSET P : Cardinality(X) <= r}} IN
  CHOOSE m \in cands : \A x \in cands : m <= x
MinTrafficTopK(W, r) == SumOver(W, DOMAIN W) - TopSum(W, DOMAIN W, r)
MinTraffic(W, r) == IF Cardinality(DOMAIN W) <= 10 THEN MinTrafficLiteral(W, r) ELSE MinTrafficTopK(W, r)

Push == IsAct /\ A.k = KF /\ A.wi /\ A.s \in Stores
Load == IsAct /\ A.k \in {KC, KM} /\ A.t = WORK

C14Clauses ==
       (IF l <= Len(Sib.ev)
          THEN C("C14.same_modulo_labels", Unlabel(Ev) = Unlabel(Sib.ev[l]))
          ELSE {"C14.same_modulo_labels"})
  \cup (IF Push /\ (Len(stk) + 1) \in DOMAIN slotSt
          THEN C("C14.slot_storage_fixed", slotSt[Len(stk) + 1] = A.s) ELSE {})
  \cup (IF Load /\ IndexOf(A.a) # 0
          THEN C("C14.slot_storage_fixed", slotSt[IndexOf(A.a)] = A.s) ELSE {})
  \cup (IF IsAct /\ A.k = KER
          THEN      C("C14.ram_count", Cardinality({i \in DOMAIN slotSt : slotSt[i] = RAM}) <= Max(T.p.ram, 0))
               \cup C("C14.min_disk_traffic", cnt.nDW + cnt.nDR = MinTraffic(slotW, Max(T.p.ram, 0)))
               \cup C("BIND.topk", Cardinality(DOMAIN slotW) > 10
                                     \/ MinTrafficLiteral(slotW, Max(T.p.ram, 0)) = MinTrafficTopK(slotW, Max(T.p.ram, 0)))
          ELSE {})

Bump(W, i) == IF i \in DOMAIN W THEN [W EXCEPT ![i] = @ + 1] ELSE (i :> 1) @@ W

StackEffect ==
  IF Push THEN
    LET i == Len(stk) + 1 IN
    /\ stk' = Append(stk, A.a)
    /\ slotSt' = (IF i \in DOMAIN slotSt THEN slotSt ELSE (i :> A.s) @@ slotSt)
    /\ slotW' = Bump(slotW, i)
  ELSE IF Load /\ IndexOf(A.a) # 0 THEN
    LET i == IndexOf(A.a) IN
    /\ slotW' = Bump(slotW, i)
    /\ stk' = (IF A.k = KM THEN SubSeq(stk, 1, i - 1) \o SubSeq(stk, i + 1, Len(stk)) ELSE stk)
    /\ slotSt' = slotSt
  ELSE UNCHANGED <<stk, slotSt, slotW>>

XInit == TraceInit /\ stk = <<>> /\ slotSt = <<>> /\ slotW = <<>>
XNext == Step(C14Clauses) /\ StackEffect
XSpec == XInit /\ [][XNext]_xvars
=============================================================================
