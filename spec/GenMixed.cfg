SPECIFICATION Spec
CONSTANTS
  NMax = 8
  St = 0
INVARIANT NothingFails
INVARIANT OptimalSteps
INVARIANT NoStuck
CHECK_DEADLOCK FALSE
