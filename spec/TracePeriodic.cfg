SPECIFICATION XSpec
INVARIANT VerdictP
CHECK_DEADLOCK FALSE
