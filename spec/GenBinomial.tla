------------------------------ MODULE GenBinomial ------------------------------
(***************************************************************************)
(* Generator model of BINOMIAL checkpointing (multistage.py; the block     *)
(* recomputation of twolevel_binomial.py has the same shape): a stack of   *)
(* restart checkpoints, advance / store / load / reverse - with the step   *)
(* sizes left NONDETERMINISTIC: the model may advance by ANY m that        *)
(* satisfies the Bellman equation of the binomial recurrence               *)
(*     Extra(len, u) = m + Extra(m, u) + Extra(len - m, u - 1)             *)
(* (GW2000 eq. (2)) - the 'revolve' and 'maximum' trajectories of the      *)
(* library are two resolutions of that choice.                             *)
(*                                                                         *)
(* Design level (no code): composed with Executor/SchedAPI, TLC checks for *)
(* every N <= NMax, every unit count S and EVERY resolution of the choice  *)
(* that no clause of C01-C04, C08, C09, C12 fails, and that the total      *)
(* number of forward steps is the Griewank-Walther closed form (C05).      *)
(***************************************************************************)
EXTENDS SchedAPI, GWForm, GenBinomialCore

CONSTANTS NMax, St            \* largest step count explored; storage used for the units

VARIABLES N, S,               \* the instance (constant along a behaviour)
          gs, bad
bvars == <<evars, avars, N, S, gs, bad>>

Ex == ExTab(NMax)
Succ == SuccOf(gs, N, S, St, Ex)

Obs(g) == [n |-> g.n, r |-> g.r, m |-> N, x |-> IF g.exh THEN 1 ELSE 0, g |-> 1,
           u |-> <<IF St = RAM /\ S > 0 THEN 1 ELSE 0, IF St = DISK /\ S > 0 THEN 1 ELSE 0, 0, 0>>]

Profile == [online |-> FALSE, passes |-> 1, allmem |-> FALSE,
            limR |-> IF St = RAM THEN S ELSE 0, limD |-> IF St = DISK THEN S ELSE 0,
            period |-> 0, perstep |-> FALSE]

Init == /\ N \in 1..NMax /\ S \in 0..(NMax - 1) /\ (N > 1 => S >= 1) /\ S <= Max(N - 1, 0)
        /\ ExecInit(Profile, N) /\ APIInit
        /\ gs = GenBinInit /\ bad = {}

Next ==
  \E st \in Succ :
    /\ gs' = st.gs
    /\ NextEffect(ONext, st.e)
    /\ ObsEffect(Obs(st.gs))
    /\ bad' = bad \cup NextClauses(ONext, st.e) \cup ObsClausesNext(Obs(st.gs)) \cup StateClausesNext
    /\ UNCHANGED <<N, S>>

Spec == Init /\ [][Next]_bvars

(* liveness: under weak fairness of the generator every resolution of the choice terminates *)
FairSpec == Spec /\ WF_bvars(Next)
Terminates == <>(gs.pc = "stop")

NothingFails == bad = {}
(* C05 at design level: every resolution of the choice takes exactly the closed-form number of steps *)
OptimalSteps == gs.pc = "stop" => cnt.nF = GW(N, BCl(N, S))
(* no resolution gets stuck before the end *)
NoStuck == (gs.pc # "stop") => Succ # {}
(* reachability, EXPECTED to be violated *)
ReachStop == gs.pc # "stop"
=============================================================================
