SPECIFICATION Spec
INVARIANT Monotone
INVARIANT Verdict
CHECK_DEADLOCK FALSE
