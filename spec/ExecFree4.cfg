SPECIFICATION Spec
CONSTANTS
  N = 4
  LimR = 1
  LimD = 1
  Passes = 1
  AllMem = FALSE
VIEW View
INVARIANT TypeOK
INVARIANT WorkInvariant
INVARIANT NeverLost
INVARIANT ReversedIsSuffix
INVARIANT DoneMeansReversedAll
INVARIANT CleanAtEnd
PROPERTY AdjBackwardsOnly
PROPERTY NoDoubleReverse
CHECK_DEADLOCK FALSE
