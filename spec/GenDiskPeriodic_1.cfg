SPECIFICATION Spec
CONSTANTS
  NMax = 8
  CM = 1
  UF = 3
  WD = 1
  RD = 1
  PER = 1
INVARIANT NothingFails
INVARIANT NoStuck
INVARIANT OptimalCost
INVARIANT ReadOnce
CHECK_DEADLOCK FALSE
