------------------------------- MODULE ExecFree -------------------------------
(***************************************************************************)
(* The executor specification running FREE: any well-formed action over a  *)
(* small universe may be emitted next, provided no clause of Executor is   *)
(* false for it (the strict action Do) and the state clauses (budgets,     *)
(* one thing in WORK) hold afterwards.                                     *)
(* This is every conforming stream of at most N steps.                     *)
(*                                                                         *)
(* TLC checks here that the specification is consistent with itself:       *)
(*  - the clauses imply what the properties promise about a conforming     *)
(*    stream: WORK contents are always known, the reversed steps are a     *)
(*    suffix, a step is never reversed twice in one pass, the adjoint only *)
(*    moves backwards within a pass, "done" means every step was reversed  *)
(*    and (single pass) storage is clean, dependency data in WORK never    *)
(*    lies beyond the step after the adjoint position;                     *)
(*  - every action kind, every phase and completion are reachable          *)
(*    (vacuity: run with -coverage 1; the "Reach" invariants of            *)
(*    ExecFreeReach.cfg are EXPECTED to be violated).                      *)
(***************************************************************************)
EXTENDS Executor

CONSTANTS N, LimR, LimD, Passes, AllMem

VARIABLE revd         \* history: steps reversed in the current pass (hidden by the VIEW)
fvars == <<evars, revd>>

Profile == [online |-> FALSE, passes |-> Passes, allmem |-> AllMem, limR |-> LimR, limD |-> LimD,
            period |-> 0, perstep |-> FALSE]

Universe ==
       {Fwd(n0, n1, wi, wd, st) : n0 \in 0..(N - 1), n1 \in 1..N, wi \in BOOLEAN, wd \in BOOLEAN,
                                  st \in Storages}
  \cup {Rev(n1, n0, c) : n1 \in 1..N, n0 \in 0..(N - 1), c \in BOOLEAN}
  \cup {Cpy(n, f, t) : n \in 0..(N - 1), f \in Stores, t \in {WORK, RAM, DISK}}
  \cup {Mov(n, f, t) : n \in 0..(N - 1), f \in Stores, t \in {WORK, RAM, DISK, NONE}}
  \cup {EndF, EndR}

Init == ExecInit(Profile, N) /\ revd = {}

Next ==
  \E e \in {x \in Universe : WellFormed(x)} :
    /\ Do(e)
    /\ StateClausesNext = {}
    /\ (Passes = 2 => pass < 2)                      \* bound the repetition for TLC
    /\ revd' = (IF e.k = KR THEN revd \cup {x \in e.b..(e.a - 1) : TRUE}
                ELSE IF e.k = KER /\ Passes = 2 THEN {} ELSE revd)

Spec == Init /\ [][Next]_fvars

(* counters and the recorded first pass are observation only: hidden from the fingerprint *)
View == <<maxN, fwd, told, adj, wIcs, wDeps, lost, ram, disk, phase, pass, atEF, revd>>

(* with repeated passes the recorded first pass decides what may follow: it must be visible *)
ViewRepeat == <<View, p1, pos>>
PassBound == Len(p1) <= 5        \* CONSTRAINT of the repeat configuration (a pass may recompute for ever)

(* ---- what the clauses must imply ---- *)
WorkInvariant == AllMem \/ IsEmpty(wDeps) \/ (wDeps[2] <= N - adj + 1 /\ wDeps[2] - wDeps[1] = 1)
NeverLost == ~lost
ReversedIsSuffix == revd = {x \in 0..(N - 1) : x >= N - adj}
AdjBackwardsOnly == [][adj' >= adj \/ (phase = "rev" /\ adj = N)]_fvars
NoDoubleReverse ==
  [][(adj' > adj) => (revd' \ revd = {x \in 0..(N - 1) : N - adj' <= x /\ x < N - adj})]_fvars
DoneMeansReversedAll == phase = "done" => (Passes = 0 \/ adj = N)
CleanAtEnd == (phase = "done" /\ Passes = 1) => (DOMAIN ram = {} /\ DOMAIN disk = {})

(* ---- reachability (each EXPECTED to be violated) ---- *)
ReachDone == phase # "done"
ReachSecondPass == pass < 1 \/ phase # "rev" \/ adj = 0
ReachFullRam == LimR = 0 \/ Cardinality(DOMAIN ram) < LimR
ReachDepsCkpt == \A n \in DOMAIN ram : ~ram[n].wd
=============================================================================
