SPECIFICATION Spec
CONSTANTS
  Cls = "SingleDiskMove"
  K = 3
  Depth = 12
CONSTRAINT Consistent
INVARIANT NothingFails
CHECK_DEADLOCK FALSE
