SPECIFICATION XSpec
INVARIANT Verdict
CHECK_DEADLOCK FALSE
