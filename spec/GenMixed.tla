-------------------------------- MODULE GenMixed --------------------------------
(***************************************************************************)
(* Design level, no code: the mixed generator model (GenMixedCore)         *)
(* composed with Executor/SchedAPI.  For every n <= NMax, every unit       *)
(* count and EVERY resolution of the planner's choice TLC checks that no   *)
(* clause of C01-C04, C08, C09, C11, C12 fails and that the number of      *)
(* forward steps is the optimum of the mixed recurrence (C06); under weak  *)
(* fairness every resolution terminates.                                   *)
(***************************************************************************)
EXTENDS SchedAPI, GenMixedCore

CONSTANTS NMax, St
VARIABLES N, S, g, bad, pick
mvars == <<evars, avars, N, S, g, bad, pick>>

M == MixTab(NMax)
Succ == SuccMixed(g, N, S, St, M, pick)

Obs(gg) == [n |-> gg.n, r |-> gg.r, m |-> N, x |-> IF gg.pc = "stop" THEN 1 ELSE 0, g |-> 1,
            u |-> <<IF St = RAM THEN 1 ELSE 0, IF St = DISK THEN 1 ELSE 0, 0, 0>>]
Profile == [online |-> FALSE, passes |-> 1, allmem |-> FALSE,
            limR |-> IF St = RAM THEN S ELSE 0, limD |-> IF St = DISK THEN S ELSE 0,
            period |-> 0, perstep |-> FALSE]

Init == /\ N \in 1..NMax /\ S \in 0..(NMax - 1) /\ (N > 1 => S >= 1) /\ S <= Max(N - 1, 0)
        /\ ExecInit(Profile, N) /\ APIInit /\ g = GenMixInit /\ bad = {} /\ pick = <<>>

Next ==
  \E st \in Succ :
    /\ g' = st.gs
    /\ NextEffect(ONext, st.e)
    /\ ObsEffect(Obs(st.gs))
    /\ bad' = bad \cup NextClauses(ONext, st.e) \cup ObsClausesNext(Obs(st.gs)) \cup StateClausesNext
    /\ pick' = (IF st.key = NoKey THEN pick ELSE (st.key :> st.opt) @@ pick)
    /\ UNCHANGED <<N, S>>

Spec == Init /\ [][Next]_mvars
FairSpec == Spec /\ WF_mvars(Next)

NothingFails == bad = {}
OptimalSteps == g.pc = "stop" => cnt.nF = M[N][MCl(N, S)]
NoStuck == (g.pc # "stop") => Succ # {}
Terminates == <>(g.pc = "stop")
ReachStop == g.pc # "stop"
=============================================================================
