------------------------------ MODULE GenDiskCore ------------------------------
(***************************************************************************)
(* Disk-Revolve (Aupy et al. 2016) and Periodic-Disk-Revolve (Aupy &        *)
(* Herrmann 2017) as a pure successor relation on the ACTION level:          *)
(*   forward sweep: at position p with L = N - p steps left, either finish   *)
(*     in memory (binomial checkpointing of [p, N) with cm RAM units), or    *)
(*     write a DISK checkpoint at p and advance j steps;                      *)
(*   reverse: the last segment is reversed by the binomial generator         *)
(*     (GenBinomialCore, in local coordinates), then every disk checkpoint,  *)
(*     last one first, is MOVED to WORK (read once) and its segment reversed *)
(*     by the binomial generator again, re-storing the loaded state in RAM.  *)
(* Nondeterministic where the papers leave a choice: any j (and "memory" if  *)
(* it ties) attaining the Disk-Revolve recurrence; any Bellman-optimal       *)
(* binomial advance.  Periodic: a disk checkpoint every M steps as long as   *)
(* more than M steps remain on the (N-1)-step chain of the papers.           *)
(***************************************************************************)
EXTENDS GWForm, GenBinomialCore

SetMinD(S) == CHOOSE m \in S : \A x \in S : m <= x
RevC(cm, uf, n) == uf * GW(n, GMin(cm, n - 1))

(* the Disk-Revolve recurrence, bottom-up: tab[n] for n = 1 .. NM *)
DEntry(tab, n, cm, uf, wd, rd) ==
  IF n = 1 THEN RevC(cm, uf, 1)
  ELSE SetMinD({RevC(cm, uf, n)} \cup {wd + j * uf + tab[n - j] + rd + RevC(cm, uf, j) : j \in 1..(n - 1)})
RECURSIVE DBuild(_, _, _, _, _, _)
DBuild(tab, NM, cm, uf, wd, rd) ==
  IF Len(tab) >= NM THEN tab ELSE DBuild(Append(tab, DEntry(tab, Len(tab) + 1, cm, uf, wd, rd)), NM, cm, uf, wd, rd)
DiskTab(NM, cm, uf, wd, rd) == DBuild(<<>>, NM, cm, uf, wd, rd)

DInit == [pc |-> "sweep", p |-> 0, segs |-> <<>>, lo |-> 0, hi |-> 0, first |-> TRUE, sub |-> GenBinInit, exh |-> FALSE]
DStep(e, gd) == [e |-> e, gs |-> gd]

ShiftAct(e, d) ==
  CASE e.k \in {KF, KR} -> [e EXCEPT !.a = @ + d, !.b = @ + d]
    [] e.k \in {KC, KM} -> [e EXCEPT !.a = @ + d]
    [] OTHER -> e

(* C: [N, cm, uf, wd, rd, per (0 = Disk-Revolve, else the period), ex (binomial table), dk (disk table)] *)
SubSucc(gd, C) ==
  LET nsl == gd.hi - gd.lo
      s0 == IF gd.sub.pc = "EF" /\ ~gd.first THEN [gd.sub EXCEPT !.pc = "R0"] ELSE gd.sub
      raw == SuccOf(s0, nsl, C.cm, RAM, C.ex) IN
  {IF st.e.k = KER
     THEN (IF gd.segs = <<>>
             THEN DStep(EndR, [gd EXCEPT !.pc = "stop", !.exh = TRUE, !.sub = st.gs])
             ELSE LET d == gd.segs[Len(gd.segs)] IN
                  DStep(Mov(d, DISK, WORK),
                        [gd EXCEPT !.segs = SubSeq(gd.segs, 1, Len(gd.segs) - 1), !.lo = d, !.hi = gd.lo,
                                   !.first = FALSE, !.sub = GenBinInit]))
     ELSE DStep(ShiftAct(st.e, gd.lo), [gd EXCEPT !.sub = st.gs])
   : st \in raw}

DiskChoices(L, C) ==
  IF C.per > 0 THEN (IF L - 1 > C.per THEN {C.per} ELSE {})
  ELSE {j \in 1..(L - 1) : C.wd + j * C.uf + C.dk[L - j] + C.rd + RevC(C.cm, C.uf, j) = C.dk[L]}
MemAllowed(L, C) ==
  IF C.per > 0 THEN L - 1 <= C.per ELSE RevC(C.cm, C.uf, L) = C.dk[L]

DSucc(gd, C) ==
  CASE gd.pc = "sweep" ->
         LET L == C.N - gd.p IN
         (IF MemAllowed(L, C)
            THEN SubSucc([gd EXCEPT !.pc = "sub", !.lo = gd.p, !.hi = C.N, !.first = TRUE, !.sub = GenBinInit], C)
            ELSE {})
         \cup {DStep(Fwd(gd.p, gd.p + j, TRUE, FALSE, DISK), [gd EXCEPT !.p = gd.p + j, !.segs = Append(@, gd.p)])
                 : j \in DiskChoices(L, C)}
    [] gd.pc = "sub" -> SubSucc(gd, C)
    [] OTHER -> {}

(* what the object reports: n, r in global coordinates *)
DPosN(gd) == IF gd.pc = "sweep" THEN gd.p ELSE gd.lo + gd.sub.n
DPosR(gd, N) == IF gd.pc = "sweep" THEN 0 ELSE IF gd.pc = "stop" THEN N ELSE (N - gd.hi) + gd.sub.r
=============================================================================
