---------------------------- MODULE TraceTwoLevel ----------------------------
(***************************************************************************)
(* C13: TwoLevelCheckpointSchedule - periodic disk checkpoints, binomially *)
(* optimal recomputation of every period block, in every adjoint pass.     *)
(* Extends the generic trace validation with one history variable:         *)
(*   blk   block index |-> forward steps run inside that block during the  *)
(*         current adjoint calculation                                     *)
(***************************************************************************)
EXTENDS TraceExec, GWForm

VARIABLE blk
xvars == <<vars, blk>>

Per == T.p.period
B == T.p.ram
BinSt == T.p.st
NBlocks == CeilDiv(maxN, Per)
BlockLen(k) == Min((k + 1) * Per, maxN) - k * Per
StepsIn(k, lo, hi) == Max(0, Min(hi, (k + 1) * Per) - Max(lo, k * Per))

Blk(k) == IF k \in DOMAIN blk THEN blk[k] ELSE 0

IsAct == EvC(Ev) = CNext /\ EvO(Ev) = ONext
A == EvAct(Ev)

C13Clauses ==
  IF ~IsAct
    THEN (* an adjoint pass that stops (exception / StopIteration) has not recomputed its blocks at all *)
         (IF EvC(Ev) = CNext /\ phase = "rev" THEN {"C13.block_opt"} ELSE {})
  ELSE
       (* before finalisation: exactly Forward(k*period, (k+1)*period, restart checkpoint -> DISK) *)
       (IF phase = "fwd" /\ A.k # KEF
          THEN C("C13.fwd_pattern", A = Fwd(told, told + Per, TRUE, FALSE, DISK)) ELSE {})
       (* extra checkpoints go only to the binomial storage, and hold restart data *)
  \cup (IF phase = "rev" /\ A.k = KF /\ A.s \in Stores
          THEN C("C13.extra_storage", A.s = BinSt /\ A.wi /\ ~A.wd) ELSE {})
       (* only the block's own DISK checkpoint and checkpoints in the binomial storage are loaded *)
  \cup (IF phase = "rev" /\ A.k \in {KC, KM}
          THEN C("C13.extra_storage", A.s = BinSt \/ (A.s = DISK /\ A.a % Per = 0)) ELSE {})
       (* at EndReverse: every block was recomputed with the binomial optimum for
          BlockLen steps and binomial_snapshots + 1 units *)
  \cup (IF phase = "rev" /\ A.k = KER /\ Known
          THEN C("C13.block_opt",
                 \A k \in 0..(NBlocks - 1) :
                    Blk(k) = GW(BlockLen(k), Min(B + 1, BlockLen(k) - 1)))
          ELSE {})

BlkEffect ==
  blk' = IF ~IsAct THEN blk
         ELSE IF A.k = KER THEN [k \in DOMAIN blk |-> 0]
         ELSE IF A.k = KF /\ phase = "rev" /\ Known
           THEN [k \in 0..(NBlocks - 1) |->
                   Blk(k) + StepsIn(k, A.a, Min(A.b, maxN))]
         ELSE blk

XInit == TraceInit /\ blk = <<>>
XNext == Step(C13Clauses) /\ BlkEffect
XSpec == XInit /\ [][XNext]_xvars
=============================================================================
