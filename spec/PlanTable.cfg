SPECIFICATION Spec
INVARIANT Verdict
CHECK_DEADLOCK FALSE
