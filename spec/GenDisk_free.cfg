SPECIFICATION Spec
CONSTANTS
  NMax = 8
  CM = 1
  UF = 1
  WD = 0
  RD = 0
  PER = 0
INVARIANT NothingFails
INVARIANT NoStuck
INVARIANT OptimalCost
INVARIANT ReadOnce
CHECK_DEADLOCK FALSE
