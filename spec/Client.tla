------------------------------- MODULE Client -------------------------------
(***************************************************************************)
(* spec -> code: every call history a client can make on ONE schedule      *)
(* object over the alphabet { next() } + { finalize(k) : k in -1..K },      *)
(* of length exactly D (every shorter history is a prefix of one of        *)
(* these, and traces are judged at every prefix).  Each history is printed *)
(* once and replayed into the real classes by harness/c10.py.              *)
(*   call encoding: -2 = next(), k >= -1 = finalize(k)                      *)
(***************************************************************************)
EXTENDS Integers, Sequences, TLC, IOUtils

K == atoi(IOEnv.CLIENT_K)
D == atoi(IOEnv.CLIENT_D)

VARIABLE h
Calls == {-2} \cup (-1..K)
Init == h = <<>>
Next == Len(h) < D /\ \E c \in Calls : h' = Append(h, c)
Spec == Init /\ [][Next]_h

Emit == Len(h) = D => PrintT(<<"@V", h, "V@">>)
=============================================================================
