------------------------------ MODULE GenMixedCore ------------------------------
(***************************************************************************)
(* The MIXED checkpointing algorithm (Maddison 2024; mixed.py) as a pure   *)
(* successor relation: a stack of units, each holding either a restart     *)
(* checkpoint ("ICS", covering [n0, hi)) or one step's adjoint             *)
(* dependencies ("DEPS"); plan / advance / reverse / reload.               *)
(*                                                                         *)
(* The PLANNER is nondeterministic: for len steps to go and u free units   *)
(* it may choose ANY option that attains the optimum of the mixed          *)
(* recurrence                                                              *)
(*   M(1,u) = 1;  M(n,0) = oo (n > 1)                                      *)
(*   M(n,u) = min( 1 + M(n-1,u-1)                    store this step's deps *)
(*               , min_{2<=i<n} i + M(i,u) + M(n-i,u-1) )  restart ckpt, i  *)
(* The library's two planners (memoised / tabulated) are one resolution of *)
(* this choice (ties: the longest restart interval; deps only if strictly  *)
(* better).  The choice is a function of (len, u), fixed on first use.     *)
(*   g = [pc, n, r, snaps, ef]   snaps: sequence of [tp, n0, hi]           *)
(*   an option is <<"FR">>, <<"DEPS">> or <<"ICS", i>>                     *)
(***************************************************************************)
EXTENDS CkptActions

MBig == 1000000000
MCl(n, s) == Min(s, n - 1)

(* the optimum table tab[n][u], u in 0..NM, bottom-up *)
MRow(n, tab, NM) ==
  [u \in 0..NM |->
     IF n = 1 THEN 1
     ELSE IF u = 0 THEN MBig
     ELSE LET c == {1 + tab[n - 1][MCl(n - 1, u - 1)]}
                   \cup {i + tab[i][MCl(i, u)] + tab[n - i][MCl(n - i, u - 1)] : i \in 2..(n - 1)} IN
          CHOOSE x \in c : \A y \in c : x <= y]
RECURSIVE MBuild(_, _)
MBuild(tab, NM) == IF Len(tab) >= NM THEN tab ELSE MBuild(Append(tab, MRow(Len(tab) + 1, tab, NM)), NM)
MixTab(NM) == MBuild(<<>>, NM)

(* every optimal option for len steps and u free units *)
OptionsOf(M, len, u) ==
  IF len = 1 THEN {<<"FR">>}
  ELSE IF u < 1 THEN {}
  ELSE LET uu == MCl(len, u) IN
         (IF 1 + M[len - 1][MCl(len - 1, uu - 1)] = M[len][uu] THEN {<<"DEPS">>} ELSE {})
    \cup {<<"ICS", i>> : i \in {j \in 2..(len - 1) :
                                  j + M[j][MCl(j, uu)] + M[len - j][MCl(len - j, uu - 1)] = M[len][uu]}}

GenMixInit == [pc |-> "plan", n |-> 0, r |-> 0, snaps |-> <<>>, ef |-> FALSE]
MStep(e, gg, key, opt) == [e |-> e, gs |-> gg, key |-> key, opt |-> opt]
NoKey == <<0, 0>>

(* Choices(len, u): the options allowed now (the recorded one, if (len,u) was resolved before) *)
SuccMixed(g, NS, SU, St, M, pick) ==
  LET Choices(len, u) == IF <<len, u>> \in DOMAIN pick THEN {pick[<<len, u>>]} ELSE OptionsOf(M, len, u)
      depth == Len(g.snaps)
      top == g.snaps[depth]
      pop == SubSeq(g.snaps, 1, depth - 1)
      after(nn) == IF nn < NS - g.r THEN "plan" ELSE "turn" IN
  CASE g.pc = "plan" ->
         LET reuse == depth > 0 /\ top.n0 = g.n
             u == SU - depth + (IF reuse THEN 1 ELSE 0)
             len == NS - g.r - g.n IN
         {IF o[1] = "FR" THEN
             MStep(Fwd(g.n, g.n + 1, FALSE, TRUE, WORK), [g EXCEPT !.n = g.n + 1, !.pc = "turn"], <<len, u>>, o)
          ELSE IF o[1] = "DEPS" THEN
             MStep(Fwd(g.n, g.n + 1, FALSE, TRUE, St),
                   [g EXCEPT !.n = g.n + 1, !.snaps = Append(g.snaps, [tp |-> "DEPS", n0 |-> g.n, hi |-> g.n + 1]),
                             !.pc = after(g.n + 1)], <<len, u>>, o)
          ELSE IF reuse THEN
             MStep(Fwd(g.n, g.n + o[2], FALSE, FALSE, WORK),
                   [g EXCEPT !.n = g.n + o[2], !.pc = after(g.n + o[2])], <<len, u>>, o)
          ELSE
             MStep(Fwd(g.n, g.n + o[2], TRUE, FALSE, St),
                   [g EXCEPT !.n = g.n + o[2],
                             !.snaps = Append(g.snaps, [tp |-> "ICS", n0 |-> g.n, hi |-> g.n + o[2]]),
                             !.pc = after(g.n + o[2])], <<len, u>>, o)
            : o \in {x \in Choices(len, u) : ~(reuse /\ x[1] = "DEPS")}}
    [] g.pc = "turn" ->              \* the forward stands at the adjoint position
         IF ~g.ef THEN {MStep(EndF, [g EXCEPT !.ef = TRUE, !.pc = "rev"], NoKey, <<"FR">>)}
         ELSE {MStep(Rev(NS - g.r, NS - g.r - 1, TRUE),
                     [g EXCEPT !.r = g.r + 1, !.pc = IF g.r + 1 = NS THEN "er" ELSE "load"], NoKey, <<"FR">>)}
    [] g.pc = "rev" ->
         {MStep(Rev(NS - g.r, NS - g.r - 1, TRUE),
                [g EXCEPT !.r = g.r + 1, !.pc = IF g.r + 1 = NS THEN "er" ELSE "load"], NoKey, <<"FR">>)}
    [] g.pc = "er" -> {MStep(EndR, [g EXCEPT !.pc = "stop"], NoKey, <<"FR">>)}
    [] g.pc = "load" ->
         IF depth = 0 THEN {}
         ELSE IF top.tp = "DEPS"
           THEN (IF top.n0 + 1 = NS - g.r
                   THEN {MStep(Mov(top.n0, St, WORK), [g EXCEPT !.n = top.n0 + 1, !.snaps = pop, !.pc = "rev"],
                               NoKey, <<"FR">>)}
                   ELSE {})
           ELSE LET len == NS - g.r - top.n0
                    u == SU - depth + 1 IN
                {IF o[1] = "ICS"
                   THEN MStep(Cpy(top.n0, St, WORK), [g EXCEPT !.n = top.n0, !.pc = "plan"], <<len, u>>, o)
                   ELSE MStep(Mov(top.n0, St, WORK), [g EXCEPT !.n = top.n0, !.snaps = pop, !.pc = "plan"],
                              <<len, u>>, o)
                  : o \in Choices(len, u)}
    [] OTHER -> {}
=============================================================================
