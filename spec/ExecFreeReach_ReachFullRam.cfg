SPECIFICATION Spec
CONSTANTS
  N = 3
  LimR = 1
  LimD = 1
  Passes = 2
  AllMem = FALSE
VIEW View
INVARIANT ReachFullRam
CHECK_DEADLOCK FALSE
