SPECIFICATION Spec
INVARIANT ClosedFormIsRecurrence
INVARIANT MixedNoWorse
INVARIANT Verdict
CHECK_DEADLOCK FALSE
