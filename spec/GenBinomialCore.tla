---------------------------- MODULE GenBinomialCore ----------------------------
(***************************************************************************)
(* The binomial checkpointing algorithm as a pure successor relation       *)
(* (used by GenBinomial: free, design level; and by TraceGenBinomial:      *)
(* implementation traces must be behaviours of it).                        *)
(*   g = [pc, n, r, stack, exh]: the generator's own state                 *)
(*   SuccOf(g, NS, SU, St, NM): set of [e, gs] - the actions the algorithm *)
(*   may emit next for NS steps, SU units in storage St, with the step     *)
(*   sizes NONDETERMINISTIC: any m satisfying the Bellman equation         *)
(*     Extra(len, u) = m + Extra(m, u) + Extra(len - m, u - 1)  (GW2000 (2))*)
(***************************************************************************)
EXTENDS CkptActions

BCl(n, s) == Min(s, n - 1)
BBig == 1000000000

(* recomputation steps of the binomial optimum for 1..NM steps: a table tab[n][s], s in 0..NM, *)
(* built bottom-up row by row (each row only reads earlier rows)                              *)
BRow(n, tab, NM) ==
  [s \in 0..NM |->
     IF n = 1 THEN 0
     ELSE IF s = 0 THEN BBig
     ELSE IF s = 1 THEN (n * (n - 1)) \div 2
     ELSE LET c == {m + tab[m][BCl(m, s)] + tab[n - m][BCl(n - m, s - 1)] : m \in 1..(n - 1)} IN
          CHOOSE x \in c : \A y \in c : x <= y]
RECURSIVE BBuild(_, _)
BBuild(tab, NM) == IF Len(tab) >= NM THEN tab ELSE BBuild(Append(tab, BRow(Len(tab) + 1, tab, NM)), NM)
ExTab(NM) == BBuild(<<>>, NM)

OptOf(Ex, len, u) ==
  IF u < 1 \/ len < 2 THEN {}
  ELSE LET uu == BCl(len, u) IN
       {m \in 1..(len - 1) : Ex[len][uu] = m + Ex[m][BCl(m, uu)] + Ex[len - m][BCl(len - m, uu - 1)]}

BStep(e, g) == [e |-> e, gs |-> g]
GenBinInit == [pc |-> "F", n |-> 0, r |-> 0, stack |-> <<>>, exh |-> FALSE]

SuccOf(g, NS, SU, St, Ex) ==
  LET Top == g.stack[Len(g.stack)]
      Pop == SubSeq(g.stack, 1, Len(g.stack) - 1)
      Free == SU - Len(g.stack)
      Left == NS - g.r - g.n IN
  CASE g.pc = "F" ->
         IF g.n < NS - 1
           THEN {BStep(Fwd(g.n, g.n + m, TRUE, FALSE, St),
                       [g EXCEPT !.n = g.n + m, !.stack = Append(g.stack, g.n)]) : m \in OptOf(Ex, NS - g.n, Free)}
           ELSE {BStep(Fwd(NS - 1, NS, FALSE, TRUE, WORK), [g EXCEPT !.n = NS, !.pc = "EF"])}
    [] g.pc = "EF" -> {BStep(EndF, [g EXCEPT !.pc = "R0"])}
    [] g.pc = "R0" -> {BStep(Rev(NS, NS - 1, TRUE), [g EXCEPT !.r = 1, !.pc = "loop"])}
    [] g.pc = "loop" ->
         IF g.r = NS THEN {BStep(EndR, [g EXCEPT !.pc = "stop", !.exh = TRUE])}
         ELSE IF Len(g.stack) = 0 THEN {}
         ELSE IF Top = NS - g.r - 1
           THEN {BStep(Mov(Top, St, WORK), [g EXCEPT !.n = Top, !.stack = Pop, !.pc = "deps"])}
           ELSE {BStep(Cpy(Top, St, WORK), [g EXCEPT !.n = Top, !.pc = "adv1"])}
    [] g.pc = "adv1" ->
         {BStep(Fwd(g.n, g.n + m, FALSE, FALSE, WORK),
                [g EXCEPT !.n = g.n + m, !.pc = IF g.n + m < NS - g.r - 1 THEN "advk" ELSE "deps"])
            : m \in OptOf(Ex, Left, Free + 1)}
    [] g.pc = "advk" ->
         {BStep(Fwd(g.n, g.n + m, TRUE, FALSE, St),
                [g EXCEPT !.n = g.n + m, !.stack = Append(g.stack, g.n),
                          !.pc = IF g.n + m < NS - g.r - 1 THEN "advk" ELSE "deps"])
            : m \in OptOf(Ex, Left, Free)}
    [] g.pc = "deps" -> {BStep(Fwd(g.n, g.n + 1, FALSE, TRUE, WORK), [g EXCEPT !.n = g.n + 1, !.pc = "rev"])}
    [] g.pc = "rev" -> {BStep(Rev(g.n, g.n - 1, TRUE), [g EXCEPT !.r = g.r + 1, !.pc = "loop"])}
    [] OTHER -> {}
=============================================================================
