------------------------------- MODULE Domain -------------------------------
(***************************************************************************)
(* C17: the documented parameter domain of every schedule class as a       *)
(* predicate with three zones, and the boundary box that is enumerated.    *)
(*   "valid"        must yield a complete stream                           *)
(*   "invalid"      must raise at construction or at the first next(),     *)
(*                  never after an action has been emitted                 *)
(*   "unspecified"  the statement does not settle it (negative unit        *)
(*                  counts; Revolve family with max_n = 1 and no RAM unit) *)
(* A parameter record has the fields of the trace header:                  *)
(*   [max_n, ram, disk, traj, st, period, uf, ub, wd, rd]                  *)
(***************************************************************************)
EXTENDS CkptActions

P(max_n, ram, disk, traj, st, period, c) ==
  [max_n |-> max_n, ram |-> ram, disk |-> disk, traj |-> traj, st |-> st, period |-> period,
   uf |-> c[1], ub |-> c[2], wd |-> c[3], rd |-> c[4]]

RevFamily == {"Revolve", "DiskRevolve", "PeriodicDiskRevolve", "HRevolve"}

Zone(cls, p) ==
  CASE cls \in {"SingleMemory", "SingleDiskCopy", "SingleDiskMove", "None"} -> "valid"
    [] cls = "Multistage" ->
         IF p.max_n < 1 THEN "invalid"
         ELSE IF p.ram < 0 \/ p.disk < 0 THEN "unspecified"
         ELSE IF p.max_n > 1 /\ p.ram + p.disk = 0 THEN "invalid"
         ELSE "valid"
    [] cls = "Mixed" ->
         IF p.max_n < 1 \/ p.st \notin Stores THEN "invalid"
         ELSE IF p.ram < 0 THEN "unspecified"
         ELSE IF p.max_n > 1 /\ p.ram = 0 THEN "invalid"
         ELSE "valid"
    [] cls = "TwoLevel" ->
         IF p.period < 1 \/ p.st \notin Stores THEN "invalid"
         ELSE IF p.ram < 0 THEN "unspecified"
         ELSE "valid"
    [] cls \in RevFamily ->
         IF p.max_n < 1 THEN "invalid"
         ELSE IF p.ram < 0 \/ (cls = "HRevolve" /\ p.disk < 0) THEN "unspecified"
         ELSE IF p.uf <= 0 \/ p.ub <= 0 \/ p.wd < 0 \/ p.rd < 0 THEN "unspecified"
         ELSE IF p.ram = 0 THEN (IF p.max_n > 1 THEN "invalid" ELSE "unspecified")
         ELSE "valid"

(* The boundary box: n in 0..NMax, unit counts 0..n+2, every storage, period 0..PMax. *)
Costs == {<<1, 1, 2, 2>>, <<2, 1, 1, 3>>}
Box(NMax, PMax, BMax) ==
       {<<c, n, P(-1, -1, -1, 0, 1, -1, <<1, 1, 2, 2>>)>> :
            c \in {"SingleMemory", "SingleDiskCopy", "SingleDiskMove", "None"}, n \in 1..NMax}
  \cup {<<"Multistage", n, P(n, r, d, t, 1, -1, <<1, 1, 2, 2>>)>> :
            n \in 0..NMax, r \in 0..(NMax + 2), d \in 0..(NMax + 2), t \in {0, 1}}
  \cup {<<"Mixed", n, P(n, s, -1, 0, st, -1, <<1, 1, 2, 2>>)>> :
            n \in 0..NMax, s \in 0..(NMax + 2), st \in Storages}
  \cup {<<"TwoLevel", n, P(-1, b, -1, t, st, p, <<1, 1, 2, 2>>)>> :
            n \in 1..NMax, b \in 0..BMax, t \in {0, 1}, st \in Storages, p \in 0..PMax}
  \cup {<<c, n, P(n, m, -1, 0, 1, -1, cv)>> :
            c \in {"Revolve", "DiskRevolve", "PeriodicDiskRevolve"}, n \in 0..NMax,
            m \in 0..(NMax + 2), cv \in Costs}
  \cup {<<"HRevolve", n, P(n, m, d, 0, 1, -1, cv)>> :
            n \in 0..NMax, m \in 0..(NMax + 2), d \in 0..3, cv \in Costs}

InBox(x) == x[3].ram <= x[2] + 2 /\ x[3].disk <= x[2] + 2
=============================================================================
