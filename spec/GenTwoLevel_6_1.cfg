SPECIFICATION Spec
CONSTANTS
  P = 6
  B = 1
  BinSt = 0
  K = 13
  MaxFwd = 2
  MaxPass = 2
CONSTRAINT Bound
INVARIANT NothingFails
INVARIANT NoStuck
CHECK_DEADLOCK FALSE
