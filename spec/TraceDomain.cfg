SPECIFICATION TraceSpec
INVARIANT VerdictD
CHECK_DEADLOCK FALSE
