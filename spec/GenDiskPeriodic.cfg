SPECIFICATION Spec
CONSTANTS
  NMax = 10
  CM = 1
  UF = 1
  WD = 2
  RD = 2
  PER = 3
INVARIANT NothingFails
INVARIANT NoStuck
INVARIANT OptimalCost
INVARIANT ReadOnce
CHECK_DEADLOCK FALSE
