--------------------------- MODULE ActionPairsGen ---------------------------
(* spec -> code: print the action universe; the harness constructs every    *)
(* action and every ordered pair of them in the real library.               *)
EXTENDS ActionUniverse, TLC
ASSUME PrintT(<<"@V", Universe, "V@">>)
=============================================================================
