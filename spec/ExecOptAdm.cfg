SPECIFICATION Spec
CONSTRAINT CostBound
PROPERTY PotentialMonotone
CHECK_DEADLOCK FALSE
