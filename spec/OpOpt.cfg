SPECIFICATION Spec
VIEW View
CONSTRAINT Prune
INVARIANT Verdict
CHECK_DEADLOCK FALSE
