SPECIFICATION Spec
CONSTANTS
  N = 4
  LimR = 1
  LimD = 1
  TB = 15
  MoveOnLast = TRUE
VIEW ViewProg
CONSTRAINT CostBound
INVARIANT Refines
INVARIANT Emit
CHECK_DEADLOCK FALSE
