----------------------------- MODULE TraceSibling -----------------------------
(***************************************************************************)
(* Properties that demand EQUAL STREAMS (C15: a stream depends only on the *)
(* object's own parameters; C16: same stream with and without numba).      *)
(* A trace whose header has sibo > 0 is compared with its sibling          *)
(* Traces[tid - sibo] (the reference: fresh interpreter / other planner):  *)
(* the i-th next() of the trace must return what the i-th next() of the    *)
(* sibling returned - same outcome, same action BY VALUE.  With            *)
(* siblen = 1 the two must also make the same number of next() calls       *)
(* return.  Both traces are validated against Executor/SchedAPI as usual.  *)
(***************************************************************************)
EXTENDS TraceExec

VARIABLE nx
svars == <<vars, nx>>

Sib == Traces[tid - T.sibo]
NextsOf(t) == SelectSeq(t.ev, LAMBDA e : EvC(e) = CNext)
SameReturn(e, f) == /\ EvO(e) = EvO(f)
                    /\ (EvO(e) = ONext => EvAct(e) = EvAct(f))

SibClauses ==
  IF T.sibo > 0 /\ EvC(Ev) = CNext
    THEN LET sn == NextsOf(Sib) IN
              C("SIB.stream", nx + 1 <= Len(sn) /\ SameReturn(Ev, sn[nx + 1]))
         \cup (IF T.siblen = 1 /\ l = TLen
                 THEN C("SIB.length", nx + 1 = Len(sn)) ELSE {})
    ELSE {}

SInit == TraceInit /\ nx = 0
SNext == /\ Step(SibClauses)
         /\ nx' = (IF EvC(Ev) = CNext THEN nx + 1 ELSE nx)
SSpec == SInit /\ [][SNext]_svars
=============================================================================
