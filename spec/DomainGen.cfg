
