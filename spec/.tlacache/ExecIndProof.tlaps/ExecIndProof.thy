(* automatically generated -- do not edit manually *)
theory ExecIndProof imports Constant Zenon begin
ML_command \<open> writeln ("*** TLAPS PARSED\n"); \<close>
consts
  "isReal" :: c
  "isa_slas_a" :: "[c,c] => c"
  "isa_bksl_diva" :: "[c,c] => c"
  "isa_perc_a" :: "[c,c] => c"
  "isa_peri_peri_a" :: "[c,c] => c"
  "isInfinity" :: c
  "isa_lbrk_rbrk_a" :: "[c] => c"
  "isa_less_more_a" :: "[c] => c"

end
