---------------------------- MODULE ExecIndProof ----------------------------
(***************************************************************************)
(* TLAPS proof, for EVERY number of steps N >= 1 and without any bound on   *)
(* the behaviour, that IndInv is an invariant of the executor core          *)
(* (ExecIndCore: the guards of Executor.tla on forward position, adjoint    *)
(* position, dependency data in WORK and the set of restart checkpoints).   *)
(* Checked with:  tlapm ExecIndProof.tla      (make tlaps)                  *)
(***************************************************************************)
EXTENDS ExecIndCore, TLAPS

ASSUME NPos == N \in Nat /\ N >= 1

THEOREM InitInv == Init => IndInv
  BY NPos DEF Init, IndInv, Pos

THEOREM StepInv == IndInv /\ [Next]_vars => IndInv'
<1> SUFFICES ASSUME IndInv, [Next]_vars PROVE IndInv'
  OBVIOUS
<1>1. CASE Advance
  BY <1>1, NPos DEF Advance, IndInv, Pos
<1>2. CASE EndForward
  BY <1>2, NPos DEF EndForward, IndInv, Pos
<1>3. CASE Reverse
  BY <1>3, NPos DEF Reverse, IndInv, Pos
<1>4. CASE Load
  BY <1>4, NPos DEF Load, IndInv, Pos
<1>5. CASE Discard
  BY <1>5, NPos DEF Discard, IndInv, Pos
<1>6. CASE UNCHANGED vars
  BY <1>6, NPos DEF vars, IndInv, Pos
<1> QED
  BY <1>1, <1>2, <1>3, <1>4, <1>5, <1>6 DEF Next

THEOREM Safety == Spec => []IndInv
  BY InitInv, StepInv, PTL DEF Spec
=============================================================================
