SPECIFICATION Spec
CONSTANTS
  N = 4
  LimR = 1
  LimD = 1
  TB = 0
  MoveOnLast = TRUE
VIEW View
INVARIANT ReachDiskRead
CHECK_DEADLOCK FALSE
