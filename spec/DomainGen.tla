------------------------------ MODULE DomainGen ------------------------------
(* spec -> code: print the boundary box of C17; the harness constructs and   *)
(* iterates every tuple in the real library (with a watchdog).               *)
EXTENDS Domain, TLC, IOUtils
NMax == atoi(IOEnv.DOMAIN_NMAX)
ASSUME PrintT(<<"@V", {x \in Box(NMax, 4, 3) : InBox(x)}, "V@">>)
=============================================================================
