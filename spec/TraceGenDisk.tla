------------------------------ MODULE TraceGenDisk ------------------------------
(***************************************************************************)
(* code -> model: a recorded DiskRevolve or PeriodicDiskRevolve trace must  *)
(* be a behaviour of GenDiskCore (any split attaining the Disk-Revolve       *)
(* recurrence - or the closed-form period -, any Bellman-optimal binomial    *)
(* advance inside a segment).  A mismatch is GEN.drift: a DIAGNOSTIC, never  *)
(* by itself a violation of a listed property; the rest of the trace is not  *)
(* compared.                                                                 *)
(***************************************************************************)
EXTENDS TraceExec, GenDiskCore

VARIABLES gd, ok,
          tabs      \* the binomial and Disk-Revolve tables of this trace (constant along the trace)
xvars == <<vars, gd, ok, tabs>>

NS == T.p.max_n
Cf == [N |-> NS, cm |-> T.p.ram, uf |-> T.p.uf, wd |-> T.p.wd, rd |-> T.p.rd,
       per |-> IF T.cls = "PeriodicDiskRevolve" THEN Period(T.p.ram, T.p.uf, T.p.wd, T.p.rd) ELSE 0,
       ex |-> tabs.ex, dk |-> tabs.dk]

IsNext == EvC(Ev) = CNext
Matches == {st \in DSucc(gd, Cf) : EvO(Ev) = ONext /\ st.e = EvAct(Ev)}

GenClauses ==
  IF ~ok \/ ~IsNext THEN {}
  ELSE IF gd.pc = "stop" THEN C("GEN.drift", EvO(Ev) = OStop)
  ELSE C("GEN.drift", Matches # {})

GenEffect ==
  IF ~ok \/ ~IsNext \/ gd.pc = "stop" THEN UNCHANGED <<gd, ok>>
  ELSE IF Matches = {} THEN ok' = FALSE /\ gd' = gd
  ELSE gd' = (CHOOSE st \in Matches : TRUE).gs /\ ok' = TRUE

XInit == /\ TraceInit /\ gd = DInit /\ ok = TRUE
         /\ tabs = [ex |-> ExTab(Max(NS, 1)), dk |-> DiskTab(Max(NS, 1), T.p.ram, T.p.uf, T.p.wd, T.p.rd)]
XNext == Step(GenClauses) /\ GenEffect /\ UNCHANGED tabs
XSpec == XInit /\ [][XNext]_xvars
=============================================================================
