SPECIFICATION Spec
CONSTANTS
  NMax = 10
  CM = 2
  UF = 1
  WD = 1
  RD = 1
  PER = 0
INVARIANT NothingFails
INVARIANT NoStuck
INVARIANT OptimalCost
INVARIANT ReadOnce
CHECK_DEADLOCK FALSE
