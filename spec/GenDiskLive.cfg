SPECIFICATION FairSpec
CONSTANTS
  NMax = 8
  CM = 1
  UF = 1
  WD = 2
  RD = 2
  PER = 0
PROPERTY Terminates
CHECK_DEADLOCK FALSE
