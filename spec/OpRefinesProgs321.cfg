SPECIFICATION Spec
CONSTANTS
  N = 3
  LimR = 2
  LimD = 1
  TB = 11
  MoveOnLast = TRUE
VIEW ViewProg
CONSTRAINT CostBound
INVARIANT Refines
INVARIANT Emit
CHECK_DEADLOCK FALSE
