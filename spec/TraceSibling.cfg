SPECIFICATION SSpec
INVARIANT Verdict
CHECK_DEADLOCK FALSE
