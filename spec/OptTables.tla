------------------------------ MODULE OptTables ------------------------------
(***************************************************************************)
(* The published characterisations of the optima, written independently of *)
(* the code and built bottom-up by a state machine (one row per step):     *)
(*   gw[n][s]   Griewank-Walther closed form  (total forward steps,        *)
(*              library convention: the n dependency-producing steps count)*)
(*   bin[n][s]  the binomial recurrence, GW2000 eq. (2)                    *)
(*   mix[n][s]  the mixed recurrence of Maddison (2024)                    *)
(* Row n is a function over s in 0..n-1 (s is clamped to n-1 on lookup).   *)
(*                                                                         *)
(* Invariants: closed form = recurrence on every row; every CLAIM (a value *)
(* obtained from the implementation: validated forward-step totals of      *)
(* streams, return values of the public helpers; and the optima found by   *)
(* the exhaustive ExecOpt search) equals the table entry.                  *)
(***************************************************************************)
EXTENDS GWForm, Sequences, FiniteSets, TLC, Json, IOUtils

Claims == JsonDeserialize(IOEnv.CLAIMS_FILE)   \* sequence of [kind, n, s, v]
NMax == atoi(IOEnv.OPT_NMAX)
SMax == atoi(IOEnv.OPT_SMAX)                   \* rows are built for s <= SMax only

VARIABLES gw, bin, mix
vars == <<gw, bin, mix>>

Cl(n, s) == GMin(s, n - 1)
SetMin(S) == CHOOSE m \in S : \A x \in S : m <= x

BinEntry(n, s, tab) ==
  IF n = 1 THEN 1
  ELSE IF s < 1 THEN GBig
  ELSE IF s = 1 THEN n + (n * (n - 1)) \div 2
  ELSE n + SetMin({i + (tab[i][Cl(i, s)] - i) + (tab[n - i][Cl(n - i, s - 1)] - (n - i)) : i \in 1..(n - 1)})

MixEntry(n, s, tab) ==
  IF n = 1 THEN 1
  ELSE IF s < 1 THEN GBig
  ELSE IF n <= s + 1 THEN n
  ELSE IF s = 1 THEN (n * (n + 1)) \div 2 - 1
  ELSE SetMin({i + tab[i][Cl(i, s)] + tab[n - i][Cl(n - i, s - 1)] : i \in 2..(n - 1)}
              \cup {1 + tab[n - 1][Cl(n - 1, s - 1)]})

Init == gw = <<>> /\ bin = <<>> /\ mix = <<>>
Next == LET n == Len(bin) + 1 IN
        /\ n <= NMax
        /\ gw' = Append(gw, [s \in 0..GMin(n - 1, SMax) |-> GW(n, s)])
        /\ bin' = Append(bin, [s \in 0..GMin(n - 1, SMax) |-> BinEntry(n, s, bin)])
        /\ mix' = Append(mix, [s \in 0..GMin(n - 1, SMax) |-> MixEntry(n, s, mix)])
Spec == Init /\ [][Next]_vars

ClosedFormIsRecurrence == \A n \in 1..Len(bin) : gw[n] = bin[n]
MixedNoWorse == \A n \in 1..Len(bin) : \A s \in DOMAIN bin[n] : mix[n][s] <= bin[n][s]

Table(kind) == IF kind = "bin" THEN gw ELSE mix
Extra(n, s) == bin[n][Cl(n, s)] - n          \* recomputation steps of the binomial optimum

(* "adv": the planner's choice v of how far to advance before the next checkpoint, for n  *)
(* steps and s units, is consistent with optimality iff it satisfies the Bellman equation *)
(*   Extra(n, s) = v + Extra(v, s) + Extra(n - v, s - 1)       (GW2000, eq. (2))          *)
AdvOK(k) == /\ k.v >= 1 /\ k.v <= k.n - 1
            /\ IF Cl(k.n, k.s) = 1 THEN k.v = k.n - 1
               ELSE Extra(k.n, k.s) = k.v + Extra(k.v, Cl(k.n, k.s)) + Extra(k.n - k.v, Cl(k.n, k.s) - 1)

BadClaims == {c \in 1..Len(Claims) :
                LET k == Claims[c] IN
                k.n <= NMax /\ k.n >= 1 /\ (k.n = 1 \/ k.s >= 1) /\ Cl(k.n, k.s) <= SMax
                /\ IF k.kind = "adv" THEN (k.n >= 2 /\ ~AdvOK(k))
                   ELSE Table(k.kind)[k.n][Cl(k.n, k.s)] # k.v}
Verdict == Len(bin) = NMax => PrintT(<<"@V", BadClaims, "V@">>)
=============================================================================
