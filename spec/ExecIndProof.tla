---------------------------- MODULE ExecIndProof ----------------------------
(***************************************************************************)
(* TLAPS proof, for EVERY number of steps N >= 1 and without any bound on   *)
(* the behaviour, that IndInv is an invariant of the executor core          *)
(* (ExecIndCore: the guards of Executor.tla on forward position, adjoint    *)
(* position, dependency data in WORK and the set of restart checkpoints).   *)
(* Checked with:  tlapm ExecIndProof.tla      (make tlaps)                  *)
(***************************************************************************)
EXTENDS ExecIndCore, TLAPS

ASSUME NPos == N \in Nat /\ N >= 1

THEOREM InitInv == Init => IndInv
  BY NPos DEF Init, IndInv, Pos

THEOREM StepInv == IndInv /\ [Next]_vars => IndInv'
<1> SUFFICES ASSUME IndInv, [Next]_vars PROVE IndInv'
  OBVIOUS
<1>1. CASE Advance
  BY <1>1, NPos DEF Advance, IndInv, Pos
<1>2. CASE EndForward
  BY <1>2, NPos DEF EndForward, IndInv, Pos
<1>3. CASE Reverse
  BY <1>3, NPos DEF Reverse, IndInv, Pos
<1>4. CASE Load
  BY <1>4, NPos DEF Load, IndInv, Pos
<1>5. CASE Discard
  BY <1>5, NPos DEF Discard, IndInv, Pos
<1>6. CASE UNCHANGED vars
  BY <1>6, NPos DEF vars, IndInv, Pos
<1> QED
  BY <1>1, <1>2, <1>3, <1>4, <1>5, <1>6 DEF Next

THEOREM Safety == Spec => []IndInv
  BY InitInv, StepInv, PTL DEF Spec

(* C02 for every N: the adjoint position moves by single steps and only forward in the count of  *)
(* reversed steps - no step is skipped, none is reversed twice; nothing is reversed before        *)
(* EndForward (part of IndInv).                                                                    *)
OneAtATime == [][adj' = adj \/ adj' = adj + 1]_vars

LEMMA StepOne == [Next]_vars => (adj' = adj \/ adj' = adj + 1)
<1> SUFFICES ASSUME [Next]_vars PROVE adj' = adj \/ adj' = adj + 1
  OBVIOUS
<1>1. CASE Advance BY <1>1 DEF Advance
<1>2. CASE EndForward BY <1>2 DEF EndForward
<1>3. CASE Reverse BY <1>3 DEF Reverse
<1>4. CASE Load BY <1>4 DEF Load
<1>5. CASE Discard BY <1>5 DEF Discard
<1>6. CASE UNCHANGED vars BY <1>6 DEF vars
<1> QED BY <1>1, <1>2, <1>3, <1>4, <1>5, <1>6 DEF Next

THEOREM ReversedInOrder == Spec => OneAtATime
  BY StepOne, PTL DEF Spec, OneAtATime

(* C12 for every N: whenever adjoint dependencies are in WORK they are those of the one step     *)
(* before the adjoint position, and the forward never stands more than one step beyond it.        *)
THEOREM DepsAdjacent == Spec => [](deps # -1 => deps = N - adj - 1)
<1>1. IndInv => (deps # -1 => deps = N - adj - 1)
  BY DEF IndInv, Pos
<1> QED BY <1>1, Safety, PTL
=============================================================================
