SPECIFICATION RSpec
CONSTANTS
  N = 4
  LimR = 2
  LimD = 2
  Passes = 1
  AllMem = FALSE
  Deps = FALSE
  EOUF = 2
  EOWD = 3
  EORD = 1
VIEW View
INVARIANT InitOK
PROPERTY Refines
CHECK_DEADLOCK FALSE
