SPECIFICATION TraceSpec
INVARIANT Verdict
CHECK_DEADLOCK FALSE
