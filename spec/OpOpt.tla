-------------------------------- MODULE OpOpt --------------------------------
(***************************************************************************)
(* Optimality at the operation layer, for ANY number of storage levels:    *)
(* every program that OpMachine accepts, explored exhaustively below the    *)
(* makespan the library claims for the instance (cost-bounded search, as    *)
(* ExecOpt does for the action layer).  A complete program found there is   *)
(* cheaper than the library's sequence: printed as a verdict.               *)
(*                                                                           *)
(* Used for what the action-level search cannot reach: hrevolve() with      *)
(* three levels and with a level 0 that is not free (diagnostic: the        *)
(* classes pass two levels and a free level 0).                             *)
(* That the claim itself is attained is shown by TraceOps (the library's    *)
(* own sequence is accepted with exactly that makespan).                    *)
(***************************************************************************)
EXTENDS Integers, Sequences, FiniteSets, TLC, Json, IOUtils

OM == INSTANCE OpMachine
Insts == JsonDeserialize(IOEnv.INST_FILE)     \* sequence of [l, K, cap, w, r, uf, ub, claim]

VARIABLES idx, os, lastop
vars == <<idx, os, lastop>>

I == Insts[idx]
P == [l |-> I.l, K |-> I.K, cap |-> I.cap, w |-> I.w, r |-> I.r, uf |-> I.uf, ub |-> I.ub,
      pre |-> <<>>, keep |-> <<>>, mk |-> -1, claim |-> [k \in 1..I.K |-> <<-1>>], memwf |-> FALSE]
NN == I.l + 1

Ops ==
       {<<OM!OF, a, b, 0>> : a \in 0..(NN - 1), b \in 1..NN}
  \cup {<<OM!OB, a, a - 1, 0>> : a \in 1..NN}
  \cup {<<t, a, 0, lev>> : t \in {OM!OW, OM!OR}, a \in 0..(NN - 1), lev \in 0..(I.K - 1)}
  \cup {<<t, a, 0, 0>> : t \in {OM!OWF, OM!ODF}, a \in 1..NN}

Init == idx \in 1..Len(Insts) /\ os = OM!OpInit(P) /\ lastop = <<>>

Next ==
  /\ \E o \in Ops : \E last \in BOOLEAN :
       /\ (o[1] = OM!OR \/ ~last)
       /\ OM!OpClauses(P, os, o, last) = {}
       /\ os' = OM!OpEffect(P, os, o, last)
       /\ lastop' = <<o, last>>
  /\ UNCHANGED idx

Spec == Init /\ [][Next]_vars

(* the history of writes is not state; everything else is *)
View == <<idx, os.buf, os.st, os.ext, os.pw, os.fresh, os.wrote, os.armed, os.tape, os.adj, os.t>>

(* admissible bound: every remaining backward costs ub and needs one taped forward step *)
Prune == os.t + os.adj * I.ub + (IF os.tape = os.adj /\ os.adj > 0 THEN os.adj - 1 ELSE os.adj) * I.uf < I.claim
             \/ (os.adj = 0 /\ os.t < I.claim)

Done == os.adj = 0 /\ os.tape = 0 /\ os.armed = 0
NoCheaper == ~(Done /\ os.t < I.claim)       \* INVARIANT of OpOptWitness.cfg: the counterexample is the program
Verdict == (Done /\ os.t < I.claim) => PrintT(<<"@V", idx, os.t, "V@">>)
=============================================================================
