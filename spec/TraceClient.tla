----------------------------- MODULE TraceClient -----------------------------
(***************************************************************************)
(* C10 (and C09b): traces of the call histories chosen by Client.tla,      *)
(* validated like any other trace (every finalize outcome against          *)
(* FinExpected, every observer after every call), plus the sibling clause: *)
(* a trace whose header says sib = 1 is followed (tid + 1) by the trace of *)
(* the SAME history with the rejected finalize calls deleted; the two must *)
(* return the same thing from every next() ("leaves the subsequent action  *)
(* stream unchanged").                                                     *)
(***************************************************************************)
EXTENDS TraceExec

VARIABLE nx       \* number of next() calls consumed so far
cvars == <<vars, nx>>

Sib == Traces[tid + 1]
NextsOf(t) == SelectSeq(t.ev, LAMBDA e : EvC(e) = CNext)
SibNexts == NextsOf(Sib)          \* evaluated lazily, only for traces with a sibling

SameReturn(e, f) == /\ EvO(e) = EvO(f)
                    /\ (EvO(e) = ONext => EvAct(e) = EvAct(f))

SiblingClauses(e) ==
  IF T.sib = 1 /\ EvC(e) = CNext
    THEN C("C10.stream_unchanged",
           nx + 1 <= Len(SibNexts) /\ SameReturn(e, SibNexts[nx + 1]))
    ELSE {}

ClientInit == TraceInit /\ nx = 0

ClientNext ==
  /\ Step(SiblingClauses(Ev))
  /\ nx' = (IF EvC(Ev) = CNext THEN nx + 1 ELSE nx)

ClientSpec == ClientInit /\ [][ClientNext]_cvars
=============================================================================
