------------------------------ MODULE Executor ------------------------------
(***************************************************************************)
(* The client machine: what happens when a stream of checkpoint_schedules  *)
(* actions is carried out literally on WORK / RAM / DISK storage.          *)
(*                                                                         *)
(* Every requirement of the properties is a NAMED CLAUSE (the prefix is    *)
(* the property it decides).  For each action kind there is                *)
(*    XClauses(e)  - the set of clause names that are FALSE for e in the   *)
(*                   current state, and                                    *)
(*    XEffect(e)   - the TOTAL effect of e (defined in every state).       *)
(* The strict action is  XClauses(e) = {} /\ XEffect(e)  (free runs, the   *)
(* generator models); the trace specification applies the effect always    *)
(* and records the failing clauses, so a verdict is never "stuck".         *)
(***************************************************************************)
EXTENDS CkptActions, TLC

VARIABLES
  prof,    \* class profile, constant along a behaviour:
           \*  [online, passes (0,1, 2 = unbounded), allmem, limR, limD (-1 = unbounded),
           \*   period (TwoLevel: one more DISK unit per started period; else 0),
           \*   perstep (unused, kept for the trace header format)]
  maxN,    \* Unknown, or the finalised number of steps
  fwd,     \* step at which the forward state in WORK stands, or Undef
  told,    \* step the initial forward has been told to advance to
  adj,     \* steps reversed in the current adjoint calculation
  wIcs,    \* <<lo,hi>>: unused restart data in WORK ([lo,hi) ), empty iff lo >= hi
  wDeps,   \* <<lo,hi>>: steps whose adjoint dependencies are in WORK
  lost,    \* WORK contents unknown after an earlier failed load (clauses on WORK skipped)
  ram, disk, \* step |-> [wi, wd, hi]: stored checkpoints
  phase,   \* "fwd" | "rev" | "done"
  pass,    \* completed adjoint calculations
  atEF,    \* <<DOMAIN ram, DOMAIN disk>> at EndForward
  cnt,     \* [nF, nR, nDW, nDR]: forward steps run, steps reversed, DISK writes, DISK loads
           \*   (counted once the number of steps is known)
  p1, pos  \* actions of the first adjoint calculation; position in the current one

evars == <<prof, maxN, fwd, told, adj, wIcs, wDeps, lost, ram, disk, phase, pass, atEF, cnt, p1, pos>>

Empty == <<0, 0>>
IsEmpty(iv) == iv[1] >= iv[2]
Known == maxN # Unknown
NN == IF Known THEN maxN ELSE Inf
AdjPos == maxN - adj                 \* where the adjoint stands (only when Known)
Sto(s) == IF s = RAM THEN ram ELSE disk
Put(f, n, v) == (n :> v) @@ f
Del(f, n) == [x \in (DOMAIN f) \ {n} |-> f[x]]
Ck(wi, wd, hi) == [wi |-> wi, wd |-> wd, hi |-> hi]

C(name, ok) == IF ok THEN {} ELSE {name}

ExecInit(profile, n0) ==
  /\ prof = profile /\ maxN = n0 /\ fwd = 0 /\ told = 0 /\ adj = 0
  /\ wIcs = Empty /\ wDeps = Empty /\ lost = FALSE
  /\ ram = <<>> /\ disk = <<>> /\ phase = "fwd" /\ pass = 0
  /\ atEF = <<{}, {}>> /\ cnt = [nF |-> 0, nR |-> 0, nDW |-> 0, nDR |-> 0]
  /\ p1 = <<>> /\ pos = 0

-----------------------------------------------------------------------------
(* Clauses common to every action. *)
AnyClauses(e) ==
       C("C02.after_last", phase # "done")
  \cup C("C02.only_forward_before_ef", phase # "fwd" \/ e.k \in {KF, KEF})
  \cup C("C02.er_due", ~(phase = "rev" /\ Known /\ adj = maxN /\ e.k # KER))
  \cup C("C09.repeat", (prof.passes = 2 /\ pass >= 1 /\ phase = "rev")
                         => (pos + 1 <= Len(p1) /\ p1[pos + 1] = e))

(* History of the first pass, position in the current pass. *)
PassEffect(e) ==
  /\ p1' = IF phase = "rev" /\ pass = 0 THEN Append(p1, e) ELSE p1
  /\ pos' = IF e.k = KER \/ phase # "rev" THEN 0 ELSE pos + 1

-----------------------------------------------------------------------------
(* Forward(n0, n1, write_ics, write_adj_deps, storage) *)
FwdClauses(e) ==
  LET n0 == e.a  n1 == e.b IN
       C("C01.fwd_start", lost \/ fwd = n0)
  \cup C("C02.fwd_once", phase # "fwd" \/ n0 = told)
  \cup C("C12.overshoot", Known => n1 <= AdjPos)
  \cup C("C01.overwrite", e.s \in Stores => n0 \notin DOMAIN Sto(e.s))
  \cup C("C03.kind", e.s \in Stores => (~(e.wi /\ e.wd) /\ (e.wd => n1 = n0 + 1)))
  \cup C("C12.deps_adjacent", (e.s = WORK /\ e.wd /\ ~prof.allmem)
                                 => (n1 = n0 + 1 /\ (Known => n1 = AdjPos)))

FwdEffect(e) ==
  LET n0 == e.a  c1 == Min(e.b, NN)
      ck == Ck(e.wi, e.wd, c1) IN
  /\ fwd' = c1
  /\ told' = (IF phase = "fwd" THEN e.b ELSE told)
  /\ lost' = FALSE
  /\ wIcs' = (IF e.s = WORK /\ e.wi THEN <<n0, c1>> ELSE Empty)
  /\ wDeps' = (IF e.s = WORK /\ e.wd
                 THEN (IF prof.allmem /\ ~IsEmpty(wDeps) /\ wDeps[2] = n0
                         THEN <<wDeps[1], c1>>        \* SingleMemory keeps the dependencies of all steps
                         ELSE <<n0, c1>>)
                 ELSE (IF prof.allmem THEN wDeps ELSE Empty))
  /\ ram' = (IF e.s = RAM THEN Put(ram, n0, ck) ELSE ram)
  /\ disk' = (IF e.s = DISK THEN Put(disk, n0, ck) ELSE disk)
  /\ cnt' = [cnt EXCEPT !.nF = @ + (IF Known /\ c1 > n0 /\ c1 < Big THEN c1 - n0 ELSE 0),
                        !.nDW = @ + (IF e.s = DISK THEN 1 ELSE 0)]
  /\ UNCHANGED <<prof, maxN, adj, phase, pass, atEF>>

-----------------------------------------------------------------------------
(* Reverse(n1, n0, clear_adj_deps) *)
RevClauses(e) ==
  LET n1 == e.a  n0 == e.b IN
       C("C02.rev_phase", phase = "rev")
  \cup C("C02.rev_order", Known /\ n1 = AdjPos /\ n0 < n1 /\ n0 >= 0)
  \cup C("C01.rev_deps", lost \/ (n0 < n1 => (wDeps[1] <= n0 /\ n1 <= wDeps[2])))

RevEffect(e) ==
  LET len == Max(e.a - e.b, 0) IN
  /\ adj' = Min(adj + len, NN)
  /\ wDeps' = (IF e.wi THEN Empty ELSE wDeps)
  /\ cnt' = [cnt EXCEPT !.nR = @ + (IF e.a < Big THEN len ELSE 0)]     \* embedded huge steps are not counted
  /\ UNCHANGED <<prof, maxN, fwd, told, wIcs, lost, ram, disk, phase, pass, atEF>>

-----------------------------------------------------------------------------
(* Copy(n, from, to) / Move(n, from, to) *)
LoadExists(e) == e.s \in Stores /\ e.a \in DOMAIN Sto(e.s)
LoadCk(e) == Sto(e.s)[e.a]

LoadClauses(e) ==
  LET n == e.a IN
       C("C02.load_phase", phase # "fwd")
  \cup C("C01.load_exists", LoadExists(e))
  \cup C("C01.load_before_adj", Known => n < AdjPos)
  \cup (IF e.t = WORK THEN
               C("C12.load_clean", lost \/ (IsEmpty(wIcs) /\ IsEmpty(wDeps)))
          \cup (IF LoadExists(e) THEN
                  (IF LoadCk(e).wi
                   THEN C("C01.load_covers", Known => LoadCk(e).hi >= AdjPos)
                   ELSE C("C12.load_deps_adjacent", Known => n = AdjPos - 1))
                ELSE {})
        ELSE IF e.t \in Stores THEN
               C("C01.overwrite", (e.t = e.s /\ e.k = KM) \/ n \notin DOMAIN Sto(e.t))
        ELSE {})

LoadEffect(e) ==
  LET n == e.a
      ex == LoadExists(e)
      ck == IF ex THEN LoadCk(e) ELSE Ck(FALSE, FALSE, 0)
      ram1 == IF e.k = KM /\ e.s = RAM /\ ex THEN Del(ram, n) ELSE ram
      disk1 == IF e.k = KM /\ e.s = DISK /\ ex THEN Del(disk, n) ELSE disk IN
  /\ ram' = (IF e.t = RAM /\ ex THEN Put(ram1, n, ck) ELSE ram1)
  /\ disk' = (IF e.t = DISK /\ ex THEN Put(disk1, n, ck) ELSE disk1)
  /\ IF e.t = WORK
       THEN /\ lost' = ~ex
            /\ fwd' = (IF ex /\ ck.wi THEN n ELSE Undef)
            /\ wIcs' = (IF ex /\ ck.wi THEN <<n, ck.hi>> ELSE Empty)
            /\ wDeps' = (IF ex /\ ck.wd THEN <<n, ck.hi>> ELSE Empty)
       ELSE UNCHANGED <<lost, fwd, wIcs, wDeps>>
  /\ cnt' = [cnt EXCEPT !.nDR = @ + (IF e.s = DISK /\ e.t = WORK THEN 1 ELSE 0),
                        !.nDW = @ + (IF e.t = DISK THEN 1 ELSE 0)]
  /\ UNCHANGED <<prof, maxN, told, adj, phase, pass, atEF>>

-----------------------------------------------------------------------------
(* EndForward() *)
EFClauses(e) ==
       C("C02.ef_once", phase = "fwd")
  \cup C("C02.ef_position", Known /\ fwd = maxN)

EFEffect(e) ==
  /\ phase' = (IF phase = "fwd" THEN (IF prof.passes = 0 THEN "done" ELSE "rev") ELSE phase)
  /\ atEF' = (IF phase = "fwd" THEN <<DOMAIN ram, DOMAIN disk>> ELSE atEF)
  /\ UNCHANGED <<prof, maxN, fwd, told, adj, wIcs, wDeps, lost, ram, disk, pass, cnt>>

-----------------------------------------------------------------------------
(* EndReverse() *)
ERClauses(e) ==
       C("C02.er_complete", phase = "rev" /\ Known /\ adj = maxN)
  \cup C("C04.clean", (phase = "rev" /\ prof.passes = 1) => (DOMAIN ram = {} /\ DOMAIN disk = {}))
  \cup C("C04.no_accumulation",
         (phase = "rev" /\ prof.passes = 2) => (<<DOMAIN ram, DOMAIN disk>> = atEF))

EREffect(e) ==
  /\ pass' = (IF phase = "rev" THEN pass + 1 ELSE pass)
  /\ phase' = (IF phase = "rev" /\ prof.passes # 2 THEN "done" ELSE phase)
  /\ adj' = (IF phase = "rev" /\ prof.passes = 2 THEN 0 ELSE adj)
  /\ UNCHANGED <<prof, maxN, fwd, told, wIcs, wDeps, lost, ram, disk, atEF, cnt>>

-----------------------------------------------------------------------------
ActClauses(e) ==
  AnyClauses(e) \cup
  (CASE e.k = KF -> FwdClauses(e)
     [] e.k = KR -> RevClauses(e)
     [] e.k \in {KC, KM} -> LoadClauses(e)
     [] e.k = KEF -> EFClauses(e)
     [] e.k = KER -> ERClauses(e)
     [] OTHER -> {"C18.shape"})

ActEffect(e) ==
  /\ PassEffect(e)
  /\ CASE e.k = KF -> FwdEffect(e)
       [] e.k = KR -> RevEffect(e)
       [] e.k \in {KC, KM} -> LoadEffect(e)
       [] e.k = KEF -> EFEffect(e)
       [] e.k = KER -> EREffect(e)
       [] OTHER -> UNCHANGED <<prof, maxN, fwd, told, adj, wIcs, wDeps, lost, ram, disk,
                               phase, pass, atEF, cnt>>

(* The strict action: what a conforming stream may do next. *)
Do(e) == ActClauses(e) = {} /\ ActEffect(e)

-----------------------------------------------------------------------------
(* State clauses (C03 budgets, C12 working storage).  Written over explicit *)
(* arguments so that the trace specification can evaluate them on the       *)
(* post-state of every event.                                               *)
CeilDiv(x, y) == (x + y - 1) \div y

LimRam(pf) == pf.limR
(* TwoLevel: one more DISK unit per STARTED period - a period is started by the Forward that   *)
(* was told to run it, whether or not the forward is later finalised inside it.              *)
LimDisk(pf, toldv, maxNv) ==
  IF pf.limD < 0 THEN -1
  ELSE pf.limD + (IF pf.period > 0 THEN CeilDiv(toldv, pf.period) ELSE 0)

StateClausesOf(pf, r, d, toldv, maxNv, wi, wd) ==
       C("C03.ram", LimRam(pf) < 0 \/ Cardinality(DOMAIN r) <= LimRam(pf))
  \cup C("C03.disk", LimDisk(pf, toldv, maxNv) < 0
                       \/ Cardinality(DOMAIN d) <= LimDisk(pf, toldv, maxNv))
  \cup C("C12.work", pf.allmem \/ ( /\ (wd[2] - wd[1] <= 1)
                                    /\ (IsEmpty(wi) \/ IsEmpty(wd)) ))

StateClauses == StateClausesOf(prof, ram, disk, told, maxN, wIcs, wDeps)
StateClausesNext == StateClausesOf(prof', ram', disk', told', maxN', wIcs', wDeps')

BudgetsOK == StateClauses = {}

TypeOK ==
  /\ maxN \in Int /\ fwd \in Int /\ told \in Nat /\ adj \in Nat
  /\ phase \in {"fwd", "rev", "done"} /\ pass \in Nat /\ lost \in BOOLEAN
  /\ \A n \in DOMAIN ram : ram[n].hi >= n
  /\ \A n \in DOMAIN disk : disk[n].hi >= n
  /\ Known => adj <= maxN
=============================================================================
