------------------------------ MODULE CostOrder ------------------------------
(***************************************************************************)
(* C07, the order between sibling configurations: for equal n, RAM units   *)
(* and cost vector,                                                        *)
(*    cost(HRevolve with d disk units) <= cost(HRevolve with fewer),       *)
(*    cost(DiskRevolve) <= cost(Revolve),                                  *)
(*    cost(PeriodicDiskRevolve) >= cost(DiskRevolve).                      *)
(* Claims are the costs of validated implementation traces                 *)
(* (uf*nF + wd*nDW + rd*nDR; ub*n is the same constant on both sides).     *)
(* One state per claim; each is compared with all its siblings.            *)
(***************************************************************************)
EXTENDS Integers, Sequences, TLC, Json, IOUtils

Claims == JsonDeserialize(IOEnv.CLAIMS_FILE)   \* [cls, n, cm, cd, cv, cost]
VARIABLE x
Init == x \in 1..Len(Claims)
Next == FALSE /\ UNCHANGED x
Spec == Init /\ [][Next]_x

Sibling(a, b) == a.n = b.n /\ a.cm = b.cm /\ a.cv = b.cv
KeyOf(c) == <<c.n, c.cm, c.cv>>
Keys == {KeyOf(Claims[i]) : i \in 1..Len(Claims)}
Group == [k \in Keys |-> {i \in 1..Len(Claims) : KeyOf(Claims[i]) = k}]     \* evaluated once (constant)

Bad(a, b) ==
  IF ~Sibling(a, b) THEN {}
  ELSE (IF a.cls = "HRevolve" /\ b.cls = "HRevolve" /\ a.cd > b.cd /\ a.cost > b.cost
          THEN {"C07.more_disk_no_worse"} ELSE {})
  \cup (IF a.cls = "DiskRevolve" /\ b.cls = "Revolve" /\ a.cost > b.cost
          THEN {"C07.disk_no_worse_than_revolve"} ELSE {})
  \cup (IF a.cls = "PeriodicDiskRevolve" /\ b.cls = "DiskRevolve" /\ a.cost < b.cost
          THEN {"C07.periodic_not_better_than_disk"} ELSE {})

Verdict ==
  LET bad == {<<y, c>> \in Group[KeyOf(Claims[x])] \X {"C07.more_disk_no_worse",
                  "C07.disk_no_worse_than_revolve", "C07.periodic_not_better_than_disk"} :
                c \in Bad(Claims[x], Claims[y])}
  IN bad # {} => PrintT(<<"@V", x, bad, "V@">>)
=============================================================================
