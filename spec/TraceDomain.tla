----------------------------- MODULE TraceDomain -----------------------------
(***************************************************************************)
(* C17: traces of every tuple of the boundary box (Domain.tla), validated  *)
(* like any other trace (TraceExec) and, once consumed, judged against the *)
(* zone of their parameters.                                               *)
(***************************************************************************)
EXTENDS TraceExec, Domain

NextEvents == {x \in 1..TLen : EvC(T.ev[x]) = CNext}
Actions    == {x \in NextEvents : EvO(T.ev[x]) = ONext}
Raised     == {x \in NextEvents : EvO(T.ev[x]) = OExc}
FirstNext  == CHOOSE x \in NextEvents : \A y \in NextEvents : x <= y
Complete   == exhausted \/ (prof.passes = 2 /\ pass >= T.passes)

C17Clauses ==
  LET z == Zone(T.cls, T.p) IN
  IF z = "valid"
    THEN C("C17.valid_completes", T.ctor = 0 /\ T.hung = 0 /\ T.capped = 0 /\ Raised = {}
                                    /\ (Complete \/ T.prefix = 1))     \* prefix = 1: only the first actions were requested
  ELSE IF z = "invalid"
    THEN C("C17.reject_early",
           /\ T.hung = 0
           /\ Actions = {}
           /\ (T.ctor # 0 \/ (NextEvents # {} /\ EvO(T.ev[FirstNext]) = OExc)))
  ELSE {}

VerdictD ==
  (l = TLen + 1) =>
     PrintT(<<"@V", tid, viol \cup {<<c, l, FALSE>> : c \in C17Clauses}, cnt, pass, phase,
              Zone(T.cls, T.p), "V@">>)
=============================================================================
