-------------------------------- MODULE ExecIndCore ------------------------------
(***************************************************************************)
(* An inductive argument for UNBOUNDED n (Apalache): the core of the       *)
(* executor - forward position, adjoint position, the dependency data in   *)
(* WORK and a set of restart checkpoints - with exactly the guards of      *)
(* Executor.tla (C01.fwd_start, C12.overshoot, C12.deps_adjacent,          *)
(* C02.rev_order, C01.rev_deps, C01.load_exists, C01.load_before_adj,      *)
(* C12.load_clean), for a symbolic number of steps N.  IndInv is           *)
(* inductive (Init => IndInv; IndInv /\ Next => IndInv') and implies the   *)
(* safety statements of C02/C12: the adjoint never passes 0, the forward   *)
(* never stands beyond the adjoint position, dependency data in WORK is    *)
(* that of the one step before the adjoint, checkpoints lie below the      *)
(* adjoint position once it has passed them only transiently.              *)
(* Checked with:  apalache-mc check --init=IndInit --inv=IndInv --length=1 *)
(*                apalache-mc check --init=Init --inv=IndInv --length=0    *)
(***************************************************************************)
EXTENDS Integers, FiniteSets

CONSTANT
  \* @type: Int;
  N

VARIABLES
  \* @type: Int;
  fwd,       \* forward position, -1 = undefined
  \* @type: Int;
  adj,       \* steps reversed
  \* @type: Int;
  deps,      \* the step whose adjoint dependencies are in WORK, -1 = none
  \* @type: Set(Int);
  cks,       \* steps with a stored restart checkpoint
  \* @type: Bool;
  ef         \* EndForward has been emitted

Init == fwd = 0 /\ adj = 0 /\ deps = -1 /\ cks = {} /\ ef = FALSE

Pos == N - adj     \* the adjoint position

\* Forward(fwd, n1, store?, deps?) - guards C01.fwd_start (by construction), C12.overshoot, C12.deps_adjacent
Advance ==
  /\ fwd >= 0
  /\ \E n1 \in Int, st \in BOOLEAN, wd \in BOOLEAN :
       /\ n1 > fwd /\ n1 <= Pos
       /\ (wd => (n1 = fwd + 1 /\ n1 = Pos))
       /\ (~ef => ~wd \/ n1 = N)
       /\ cks' = (IF st /\ ~wd THEN cks \union {fwd} ELSE cks)
       /\ deps' = (IF wd THEN fwd ELSE -1)
       /\ fwd' = n1
  /\ UNCHANGED <<adj, ef>>

EndForward == ~ef /\ fwd = N /\ ef' = TRUE /\ UNCHANGED <<fwd, adj, deps, cks>>

\* Reverse(Pos, Pos - 1) - guards C02.rev_phase, C02.rev_order, C01.rev_deps
Reverse ==
  /\ ef /\ adj < N /\ deps = Pos - 1
  /\ adj' = adj + 1 /\ deps' = -1
  /\ UNCHANGED <<fwd, cks, ef>>

\* Copy/Move(c, store, WORK) - guards C02.load_phase, C01.load_exists, C01.load_before_adj, C12.load_clean
Load ==
  /\ ef /\ deps = -1
  /\ \E c \in cks, mv \in BOOLEAN :
       /\ c < Pos
       /\ fwd' = c
       /\ cks' = (IF mv THEN cks \ {c} ELSE cks)
  /\ UNCHANGED <<adj, deps, ef>>

\* Move(c, store, NONE)
Discard == ef /\ (\E c \in cks : cks' = cks \ {c}) /\ UNCHANGED <<fwd, adj, deps, ef>>

Next == Advance \/ EndForward \/ Reverse \/ Load \/ Discard

IndInv ==
  /\ fwd \in Int /\ adj \in Int /\ deps \in Int /\ cks \subseteq Int /\ ef \in BOOLEAN
  /\ N >= 1
  /\ adj >= 0 /\ adj <= N
  /\ fwd >= 0 /\ fwd <= N
  /\ fwd <= Pos + 1                                 \* at most the just-reversed step ahead of the adjoint
  /\ (deps = -1 \/ (deps = Pos - 1 /\ fwd = Pos))   \* dependency data is that of the step before the adjoint
  /\ (~ef => adj = 0)
  /\ \A c \in cks : c >= 0 /\ c < N

vars == <<fwd, adj, deps, cks, ef>>
Spec == Init /\ [][Next]_vars
=============================================================================
